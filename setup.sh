#!/bin/sh
# Build what the checks share, offline, from files on disk only.
set -e
cd /verif
mkdir -p build evidence
export CARGO_NET_OFFLINE=true FALCON_RUST_VERIF_DIR=/verif RUSTFLAGS="--cfg falcon_rust_verif"
cp -f /repo/Cargo.lock /verif/replay/Cargo.lock 2>/dev/null || true
(cd /verif/replay && cargo build --offline --target-dir /verif/build/replay-target >/dev/null 2>&1) || echo "replay tool build deferred to first use"
# warm the Kani build of the crate (harness-independent part)
(cd /repo && timeout 600 cargo kani -p falcon-rust --target-dir /verif/build/kani --only-codegen >/dev/null 2>&1) || true
echo setup done
