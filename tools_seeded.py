#!/usr/bin/env python3
"""Confirm and file a seeded breaking change produced by a sub-agent.

usage: tools_seeded.py <worktree> <name> <property> [<extra property> ...]

1. in the scratch worktree (never /repo): demo passes without the patch, fails with it, and the
   existing suite passes with the patch;
2. applies patch.diff to /repo, runs ./check for each listed property, restores /repo;
3. files patch.diff, demo.diff, meta.json under /verif/seeded/<name>/.
"""
import json
import os
import shutil
import subprocess
import fcntl
_REPO_LOCK = open("/verif/build/repo.lock", "w")
fcntl.flock(_REPO_LOCK, fcntl.LOCK_EX)  # one mutator of /repo at a time
import sys
import tempfile
import time


def sh(cmd, cwd=None, timeout=3600, env=None):
    p = subprocess.run(cmd, shell=True, cwd=cwd, stdout=subprocess.PIPE, stderr=subprocess.STDOUT, text=True,
                       timeout=timeout, env=env)
    return p.returncode, p.stdout


def main():
    wt, name, props = sys.argv[1], sys.argv[2], sys.argv[3:]
    out = os.path.join(wt, "out")
    dst = os.path.join("/verif/seeded", name)
    os.makedirs(dst, exist_ok=True)
    for f in ("patch.diff", "demo.diff", "meta.txt"):
        shutil.copy(os.path.join(out, f), os.path.join(dst, f))
    env = dict(os.environ, CARGO_TARGET_DIR=os.path.join(wt, "target"), CARGO_NET_OFFLINE="true")
    log = []

    def step(title, cmd, cwd):
        rc, o = sh(cmd, cwd, env=env)
        tail = "\n".join(o.strip().splitlines()[-6:])
        log.append({"step": title, "cmd": cmd, "rc": rc, "tail": tail})
        print("[%s] rc=%d\n%s" % (title, rc, tail), flush=True)
        return rc, o

    sh("git checkout -- . && git clean -fdq -e out -e target", wt)
    # demo only
    step("apply demo", "git apply out/demo.diff", wt)
    rc_demo_clean, _ = step("demo without patch (must pass)", "cargo test --offline -p falcon-rust seeded_demo 2>&1 | tail -15", wt)
    step("apply patch", "git apply out/patch.diff", wt)
    rc_demo_patch, o2 = step("demo with patch (must fail)", "cargo test --offline -p falcon-rust seeded_demo 2>&1 | tail -25", wt)
    sh("git apply -R out/demo.diff", wt)
    rc_suite, o3 = step("existing suite with patch (must pass)", "cargo test --offline -p falcon-rust 2>&1 | grep -E '^test result|FAILED|failed' | head -8", wt)
    sh("git checkout -- . && git clean -fdq -e out -e target", wt)
    import re as _re
    applied = all(e["rc"] == 0 for e in log if e["step"] in ("apply demo", "apply patch"))
    demo_ok = applied and ("test result: ok" in _last(log, "demo without patch")) and bool(_re.search(r"test result: FAILED|[1-9]\d* failed", o2))
    suite_ok = "FAILED" not in o3 and "test result: ok" in o3

    # machinery on /repo
    evbak = tempfile.mkdtemp(prefix="evbak")
    shutil.copytree("/verif/evidence", evbak + "/evidence")
    results = {}
    try:
        rc, o = sh("git -C /repo apply %s" % os.path.join(dst, "patch.diff"))
        if rc != 0:
            print("patch does not apply to /repo:", o)
            results["apply"] = o
        else:
            for p in props:
                t0 = time.time()
                rc, o = sh("./check %s" % p, "/verif")
                lines = [l for l in o.splitlines() if l.startswith(("  failed", "VIOLATION", "UNDECIDED", "OK ", "KNOWN"))]
                results[p] = {"rc": rc, "verdict": {0: "MISSED", 1: "CAUGHT", 2: "UNDECIDED"}.get(rc, str(rc)),
                              "lines": [l[:400] for l in lines[:6]], "wall_s": round(time.time() - t0, 1)}
                print("check %s -> %s" % (p, results[p]["verdict"]), flush=True)
                for l in results[p]["lines"]:
                    print("   ", l)
    finally:
        sh("git -C /repo checkout -- .")
        shutil.rmtree("/verif/evidence", ignore_errors=True)
        shutil.copytree(evbak + "/evidence", "/verif/evidence")
        shutil.rmtree(evbak, ignore_errors=True)
    meta = {
        "name": name, "breaks_property": props[0], "also_checked": props[1:],
        "source": "independent sub-agent given only the property text and a scratch worktree",
        "agent_notes": open(os.path.join(dst, "meta.txt")).read(),
        "confirmed": {"demo_passes_without_patch_and_fails_with_it": demo_ok,
                      "existing_suite_passes_with_patch": suite_ok, "log": log},
        "machinery": results,
    }
    json.dump(meta, open(os.path.join(dst, "meta.json"), "w"), indent=1)
    print("filed", dst, "demo_ok=%s suite_ok=%s" % (demo_ok, suite_ok))


def _last(log, title):
    for e in log:
        if e["step"].startswith(title):
            return e["tail"]
    return ""


if __name__ == "__main__":
    main()
