#!/usr/bin/env python3
"""dev helper: python3 vxdev.py <template.vc> [--canary] [--rlimit N]"""
import sys, re
sys.path.insert(0,'/verif')
from vlib import vx
tpl=sys.argv[1]
canary='--canary' in sys.argv
rl=None
if '--rlimit' in sys.argv: rl=float(sys.argv[sys.argv.index('--rlimit')+1])
name='DEV-'+tpl.split('/')[-1].replace('.vc','')
try:
    gen,smap,log,cids,items=vx.generate(name,tpl,canary=canary)
except vx.Undecided as e:
    print('UNDECIDED',e); sys.exit(2)
r=vx.run_verus(gen,rlimit=rl)
print(r['json']['verification-results'] if r['json'] else r['stderr'][-3000:], 'wall %.1f'%r['wall'])
for d in r['diags']:
    if d['level']=='error' and not d['message'].startswith('aborting'):
        print(d['rendered'][:1500])
if r['json']:
    smt=r['json'].get('times-ms',{}).get('smt',{})
    fb=[]
    for mt in smt.get('smt-run-module-times',[]):
        fb+=mt.get('function-breakdown',[])
    fb.sort(key=lambda f:-f['time'])
    print('slowest:',[(f['function'].split('::')[-1],f['time'],f['success']) for f in fb[:6]])
