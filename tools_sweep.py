#!/usr/bin/env python3
"""Mutation sweep (completeness test of the Verus contracts; development tool, not part of a check).
For every function extracted by a Verus template, small syntactic mutants of its body are generated
(integer literal +-1, comparison / arithmetic / logical / shift operator flips), each is written to a
scratch copy of the sources, and the unit is run on it (no canaries).  A mutant on which the unit still
verifies is either an equivalent mutant or a hole in the contract: listed for triage.
usage: tools_sweep.py [unit ...]     results: build/sweep.json"""
import json, os, re, shutil, subprocess, sys, random
from concurrent.futures import ThreadPoolExecutor
sys.path.insert(0, "/verif")
from vlib import extract as X, units as U, vx

WORKERS = 6
MAX_PER_FN = int(os.environ.get("SWEEP_MAX", "36"))

def mutants(body):
    m = X.mask(body)
    out = []
    for mm in re.finditer(r"(?<![\w.])(\d+)(?![\w.])", m):
        v = int(mm.group(1))
        for nv in (v + 1, v - 1):
            if nv >= 0:
                out.append((mm.start(), mm.end(), str(nv)))
    ops = [(" < ", " <= "), (" <= ", " < "), (" > ", " >= "), (" >= ", " > "), (" == ", " != "), (" != ", " == "),
           (" + ", " - "), (" - ", " + "), (" && ", " || "), (" || ", " && "), (" << ", " >> "), (" >> ", " << "),
           (" | ", " & "), (" & ", " | ")]
    for a, b in ops:
        for mm in re.finditer(re.escape(a), m):
            out.append((mm.start(), mm.end(), b))
    random.Random(7).shuffle(out)
    return out[:MAX_PER_FN]

def holes(unit):
    tpl = os.path.join("/verif", U.UNITS[unit]["template"])
    items = vx.parse_template(tpl)
    res = []
    for kind, val in items:
        if kind == "fn":
            res.append(val)
    return res

def worker_run(slot, unit, relfile, newtext):
    root = "/tmp/sweep-%d" % slot
    src = os.path.join(root, "falcon-rust", "src")
    if not os.path.isdir(src):
        os.makedirs(os.path.dirname(src), exist_ok=True)
        shutil.copytree("/repo/falcon-rust/src", src)
    orig = open(os.path.join("/repo/falcon-rust/src", relfile)).read()
    open(os.path.join(src, relfile), "w").write(newtext)
    try:
        code = ("import sys; sys.path.insert(0,'/verif'); from vlib import vx, units as U\n"
                "import os\n"
                "name='SWEEP%d-'+%r\n"
                "try:\n"
                "    gen,smap,log,c,i = vx.generate(name, os.path.join('/verif', U.UNITS[%r]['template']), canary=False)\n"
                "except vx.Undecided as e:\n"
                "    print('UNDECIDED', str(e)[:120]); sys.exit()\n"
                "r = vx.run_verus(gen, 600, U.UNITS[%r].get('rlimit'), 4)\n"
                "verr, other = vx.classify(r['diags'])\n"
                "print('FAIL' if verr else ('UNDECIDED ' + (other[0].get('message','')[:100] if other else 'tool')) if (other or r['json'] is None) else 'PASS')\n"
                ) % (slot, unit, unit, unit)
        env = dict(os.environ, VERIF_REPO=root)
        p = subprocess.run([sys.executable, "-c", code], env=env, stdout=subprocess.PIPE, stderr=subprocess.STDOUT, text=True, timeout=900)
        lines = [l for l in p.stdout.splitlines() if l.startswith(("PASS", "FAIL", "UNDECIDED"))]
        return lines[-1] if lines else "UNDECIDED no-output " + p.stdout[-150:]
    finally:
        open(os.path.join(src, relfile), "w").write(orig)

def main():
    units = sys.argv[1:] or [u for u in U.UNITS if U.UNITS[u]["backend"] == "verus"]
    jobs = []
    for u in units:
        for h in holes(u):
            path = os.path.join("/repo/falcon-rust/src", h["file"])
            src = open(path).read()
            try:
                loc = X.find_fn(src, h["name"], h["within"])
            except Exception as e:
                print("skip", u, h["name"], e); continue
            body = src[loc["body_open"]:loc["body_close"] + 1]
            for (a, b, rep) in mutants(body):
                new = src[:loc["body_open"] + a] + rep + src[loc["body_open"] + b:]
                line = src.count("\n", 0, loc["body_open"] + a) + 1
                ctx = src.splitlines()[line - 1].strip()
                jobs.append((u, h["file"], h["name"], line, body[a:b].strip() + " -> " + rep.strip(), ctx, new))
    print("mutants:", len(jobs), flush=True)
    results = []
    import queue
    slots = queue.Queue()
    for k in range(WORKERS): slots.put(k)
    def run(job):
        k = slots.get()
        try:
            v = worker_run(k, job[0], job[1], job[6])
        except Exception as e:
            v = "UNDECIDED exc %r" % e
        finally:
            slots.put(k)
        rec = {"unit": job[0], "file": job[1], "fn": job[2], "line": job[3], "mutation": job[4], "context": job[5], "verdict": v}
        print("%-11s %-22s %4d %-14s %s | %s" % (job[0], job[2], job[3], job[4], v[:60], job[5][:70]), flush=True)
        return rec
    with ThreadPoolExecutor(WORKERS) as ex:
        results = list(ex.map(run, jobs))
    json.dump(results, open("/verif/build/sweep.json", "w"), indent=1)
    from collections import Counter
    print(Counter(r["verdict"].split()[0] for r in results))

if __name__ == "__main__":
    main()
