#!/usr/bin/env python3
"""Write contracts/fn_census.json: for every function name extracted by a Verus template, the number
of definitions of that name per source file of /repo (test and verif modules excluded).  Run on a
tree where it was checked by hand that callers reach the extracted definition."""
import glob, json, os, re, sys
sys.path.insert(0, os.path.dirname(os.path.abspath(__file__)))
from vlib import extract as X
names = set()
for t in glob.glob("/verif/contracts/*.vc"):
    for l in open(t):
        m = re.match(r"//@fn\s+\S+\s+(\w+)", l)
        if m:
            names.add(m.group(1))
out = {}
for n in sorted(names):
    out[n] = {}
    for f in sorted(glob.glob("/repo/falcon-rust/src/*.rs")):
        m2 = X.mask(open(f).read())
        c = len([m for m in re.finditer(r"\bfn\s+%s\b" % re.escape(n), m2) if not X._in_test_mod(m2, m.start())])
        if c:
            out[n][os.path.basename(f)] = c
json.dump(out, open("/verif/contracts/fn_census.json", "w"), indent=1, sort_keys=True)
print(json.dumps(out, indent=1))
