#!/usr/bin/env python3
"""dev helper: apply one-line source mutations to /repo (working tree), run a check, restore.
usage: tools_mutate.py <Cxx> <file> <<< 'old ==> new' lines (one mutation per line)"""
import subprocess, sys, os
import fcntl
_REPO_LOCK = open("/verif/build/repo.lock", "w")
fcntl.flock(_REPO_LOCK, fcntl.LOCK_EX)  # one mutator of /repo at a time
prop, rel = sys.argv[1], sys.argv[2]
path = os.path.join("/repo/falcon-rust/src", rel)
orig = open(path).read()
import shutil, tempfile
_ev_backup = tempfile.mkdtemp(prefix="evbak")
shutil.copytree("/verif/evidence", _ev_backup + "/evidence")
import atexit
def _restore():
    shutil.rmtree("/verif/evidence", ignore_errors=True)
    shutil.copytree(_ev_backup + "/evidence", "/verif/evidence")
    shutil.rmtree(_ev_backup, ignore_errors=True)
atexit.register(_restore)
only = os.environ.get("VERIF_ONLY_UNITS")
for line in sys.stdin:
    line = line.rstrip("\n")
    if "==>" not in line: continue
    old, new = [x.strip(" ") for x in line.split("==>")]
    old = old.replace("\\n", "\n"); new = new.replace("\\n", "\n")
    occ = 1
    if old.startswith("#"):
        occ = int(old[1]); old = old[2:].strip()
    if orig.count(old) < occ:
        print("SKIP (not found x%d): %s" % (occ, old)); continue
    parts = orig.split(old)
    mutated = old.join(parts[:occ]) + new + old.join(parts[occ:])
    open(path, "w").write(mutated)
    try:
        p = subprocess.run(["./check", prop], cwd="/verif", stdout=subprocess.PIPE, stderr=subprocess.STDOUT, text=True)
        verdict = {0: "MISSED(pass)", 1: "CAUGHT", 2: "UNDECIDED"}.get(p.returncode, str(p.returncode))
        detail = [l for l in p.stdout.splitlines() if l.startswith(("  failed", "UNDECIDED"))][:2]
        print("%-12s %s ==> %s\n      %s" % (verdict, old, new, " | ".join(d[:220] for d in detail)))
    finally:
        open(path, "w").write(orig)
