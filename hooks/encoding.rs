// hooks for encoding (included into /repo/falcon-rust/src/encoding.rs as `mod verif`).
// Unit U-CODEC-K: compress_coefficient (complete over i16).  A bounded Kani run of compress on
// the real iterator code (n <= 3, L <= 8) was tried and dropped: CBMC ran out of memory / time
// (see DESIGN.md); compress is proved by the Verus unit U-CODEC instead.
include!(concat!(env!("FALCON_RUST_VERIF_DIR"), "/hooks/common.rs"));

harnesses! {
    /// contract of compress_coefficient over all of i16: length 9 + |c|>>7, byte = sign | low 7
    fn compress_coefficient_contract(d) {
        let c = d.i16();
        let (len, byte) = compress_coefficient(c);
        let a = (c as i32).unsigned_abs();
        assert!(len == 9 + (a >> 7) as usize, "C07.coef.len: 9 + |c| >> 7 bits");
        assert!(byte as u32 == (((c < 0) as u32) << 7) | (a & 127), "C07.coef.byte: sign bit then 7 low bits");
        vcover!(c == i16::MIN, "reach: i16::MIN");
        vcover!(c == -1, "reach: -1");
        vcover!(c == 12159, "reach: 12159");
    }

}
