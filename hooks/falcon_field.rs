// hooks for falcon_field (included into /repo/falcon-rust/src/falcon_field.rs as `mod verif`
// under --cfg falcon_rust_verif).  Unit U-FELT: every harness is loop-free over the full symbolic
// domain, i.e. a complete proof of the stated contract for `Felt` on the real code.
//
// Contract vocabulary (typed from property C12, not from the code):
//   wf(x)  := x.0 < q            q = 12289
include!(concat!(env!("FALCON_RUST_VERIF_DIR"), "/hooks/common.rs"));

pub(crate) const fn raw(x: u32) -> Felt {
    Felt(x)
}
pub(crate) const fn rep(x: Felt) -> u32 {
    x.0
}

const QQ: u64 = 12289;

fn inv_slice<D: crate::verif_api::Draw>(d: &mut D, lo: u32, hi: u32) {
    let a = d.u32();
    vassume!(lo <= a && a < hi);
    let x = Felt(a);
    let r = x.inverse_or_zero();
    assert!(r.0 < 12289, "C12.inv.canonical: inverse in [0,q)");
    if a == 0 {
        assert!(r.0 == 0, "C12.inv.zero: inverse_or_zero(0) == 0");
    } else {
        assert!(
            (a as u64 * r.0 as u64) % QQ == 1,
            "C12.inv.exact: a * inv(a) == 1 mod q"
        );
    }
    vcover!(a == lo, "reach: low end of slice");
    vcover!(a + 1 == hi, "reach: high end of slice");
}

harnesses! {
    /// C12: converting any i16 yields the canonical representative of its class.
    fn felt_new_contract(d) {
        let v = d.i16();
        let r = Felt::new(v);
        assert!(r.0 < 12289, "C12.new.canonical: Felt::new(v).0 < q");
        let expect = (v as i64).rem_euclid(12289) as u32;
        assert!(r.0 == expect, "C12.new.class: Felt::new(v) == v mod q");
        vcover!(v < -12289, "reach: v below -q");
        vcover!(v > 12289, "reach: v above q");
        vcover!(v == i16::MIN, "reach: i16::MIN");
        vcover!(v == -12289, "reach: -q");
    }

    /// From<usize>: only the values the crate passes (< 2^15) are in the contract.
    fn felt_from_usize_contract(d) {
        let v = d.usize();
        vassume!(v < 32768);
        let r: Felt = Felt::from(v);
        assert!(r.0 as usize == v % 12289, "C12.from_usize: canonical");
        vcover!(v > 12289, "reach: above q");
    }

    /// C12: value() is the canonical representative; balanced_value() is centred.
    fn felt_value_contract(d) {
        let a = d.u32();
        vassume!(a < 12289);
        let a = Felt(a);
        let v = a.value();
        assert!(v as i64 == a.0 as i64, "C12.value: value() == representative");
        let b = a.balanced_value();
        assert!(-6144 <= b && b <= 6144, "C12.balanced.range: in [-6144, 6144]");
        assert!(
            (b as i64).rem_euclid(12289) == a.0 as i64,
            "C12.balanced.class: balanced_value() == a mod q"
        );
        vcover!(b == -6144, "reach: -6144");
        vcover!(b == 6144, "reach: 6144");
    }

    fn felt_add_contract(d) {
        let a = d.u32();
        let b = d.u32();
        vassume!(a < 12289 && b < 12289);
        let (a, b) = (Felt(a), Felt(b));
        let r = a + b;
        assert!(r.0 < 12289, "C12.add.canonical");
        assert!(r.0 as u64 == (a.0 as u64 + b.0 as u64) % QQ, "C12.add.exact: (a+b) mod q");
        let mut c = a;
        c += b;
        assert!(c == r, "C12.add_assign == add");
        vcover!(a.0 + b.0 == 12289, "reach: a+b == q");
        vcover!(a.0 + b.0 > 12289, "reach: wrap");
    }

    fn felt_sub_contract(d) {
        let a = d.u32();
        let b = d.u32();
        vassume!(a < 12289 && b < 12289);
        let (a, b) = (Felt(a), Felt(b));
        let r = a - b;
        assert!(r.0 < 12289, "C12.sub.canonical");
        assert!(r.0 as u64 == (a.0 as u64 + QQ - b.0 as u64) % QQ, "C12.sub.exact: (a-b) mod q");
        let mut c = a;
        c -= b;
        assert!(c == r, "C12.sub_assign == sub");
        vcover!(a.0 < b.0, "reach: borrow");
        vcover!(a.0 == b.0, "reach: zero");
    }

    fn felt_neg_contract(d) {
        let a = d.u32();
        vassume!(a < 12289);
        let a = Felt(a);
        let r = -a;
        assert!(r.0 < 12289, "C12.neg.canonical");
        assert!(r.0 as u64 == (QQ - a.0 as u64) % QQ, "C12.neg.exact: (-a) mod q");
        vcover!(a.0 == 0, "reach: zero");
        vcover!(a.0 == 12288, "reach: q-1");
    }

    fn felt_mul_contract(d) {
        let a = d.u32();
        let b = d.u32();
        vassume!(a < 12289 && b < 12289);
        let (a, b) = (Felt(a), Felt(b));
        let r = a * b;
        assert!(r.0 < 12289, "C12.mul.canonical");
        assert!(r.0 as u64 == (a.0 as u64 * b.0 as u64) % QQ, "C12.mul.exact: (a*b) mod q");
        let m = a.multiply(b);
        assert!(m == r, "C12.multiply == mul");
        let mut c = a;
        c *= b;
        assert!(c == r, "C12.mul_assign == mul");
        vcover!(a.0 == 12288 && b.0 == 12288, "reach: (q-1)^2");
    }

    /// zero/one/is_zero: the constants the generic code (batch inversion, NTT) relies on.
    fn felt_consts_contract(d) {
        use rand_distr::num_traits::{One, Zero};
        assert!(Felt::zero().0 == 0, "C12.zero");
        assert!(Felt::one().0 == 1, "C12.one");
        let a = d.u32();
        vassume!(a < 12289);
        let a = Felt(a);
        assert!(a.is_zero() == (a.0 == 0), "C12.is_zero");
        vcover!(a.is_zero(), "reach: zero");
    }

    // C12: inversion returns the multiplicative inverse, and 0 for 0.  The domain [0,q) is cut
    // into 16 consecutive slices so the chain of 22 modular products spreads over cores; the
    // union of the slices is the full domain.
    fn felt_inv_00(d) { inv_slice(d, 0, 768) }
    fn felt_inv_01(d) { inv_slice(d, 768, 1536) }
    fn felt_inv_02(d) { inv_slice(d, 1536, 2304) }
    fn felt_inv_03(d) { inv_slice(d, 2304, 3072) }
    fn felt_inv_04(d) { inv_slice(d, 3072, 3840) }
    fn felt_inv_05(d) { inv_slice(d, 3840, 4608) }
    fn felt_inv_06(d) { inv_slice(d, 4608, 5376) }
    fn felt_inv_07(d) { inv_slice(d, 5376, 6144) }
    fn felt_inv_08(d) { inv_slice(d, 6144, 6912) }
    fn felt_inv_09(d) { inv_slice(d, 6912, 7680) }
    fn felt_inv_10(d) { inv_slice(d, 7680, 8448) }
    fn felt_inv_11(d) { inv_slice(d, 8448, 9216) }
    fn felt_inv_12(d) { inv_slice(d, 9216, 9984) }
    fn felt_inv_13(d) { inv_slice(d, 9984, 10752) }
    fn felt_inv_14(d) { inv_slice(d, 10752, 11520) }
    fn felt_inv_15(d) { inv_slice(d, 11520, 12289) }
}
