// hooks for inverse (included into /repo/falcon-rust/src/inverse.rs as `mod verif` under
// --cfg falcon_rust_verif).
include!(concat!(env!("FALCON_RUST_VERIF_DIR"), "/hooks/common.rs"));

harnesses! {
}
