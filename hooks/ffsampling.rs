// hooks for ffsampling (included into /repo/falcon-rust/src/ffsampling.rs as `mod verif` under
// --cfg falcon_rust_verif).
include!(concat!(env!("FALCON_RUST_VERIF_DIR"), "/hooks/common.rs"));

/// The leaf case of ffSampling (Algorithm 11, n = 1): two calls of SamplerZ with the leaf's width,
/// first for t0 then for t1.  Compared with Algorithm 15 on the same random values.
pub(crate) fn leaf_case(mu0: f64, mu1: f64, sigma: f64, n: usize, seed: u64) -> Result<(), String> {
    use rand::SeedableRng;
    let params = crate::falcon::verif::params_of(n);
    let sigmin = if n == 512 { 1.2778336969128337f64 } else { 1.298280334344292f64 };
    let got = std::panic::catch_unwind(|| {
        let t = (Polynomial::new(vec![Complex64::new(mu0, 0.0)]), Polynomial::new(vec![Complex64::new(mu1, 0.0)]));
        let tree = LdlTree::Leaf([Complex64::new(sigma, 0.0), Complex64::new(0.0, 0.0)]);
        let mut rng = rand::rngs::StdRng::seed_from_u64(seed);
        let (z0, z1) = ffsampling(&t, &tree, &params, &mut rng);
        (z0.coefficients[0].re, z1.coefficients[0].re)
    });
    let (z0, z1) = match got { Ok(v) => v, Err(_) => return Err("ffsampling panics on a leaf".into()) };
    let mut rng = rand::rngs::StdRng::seed_from_u64(seed);
    let w0 = crate::samplerz::verif::ref_sampler_z(mu0, sigma, sigmin, &mut rng) as f64;
    let w1 = crate::samplerz::verif::ref_sampler_z(mu1, sigma, sigmin, &mut rng) as f64;
    if z0 != w0 || z1 != w1 {
        return Err(format!("ffsampling on a leaf of width {} with centres ({}, {}) returns ({}, {}) but SamplerZ(mu, sigma', sigma_min) on the same random values gives ({}, {})", sigma, mu0, mu1, z0, z1, w0, w1));
    }
    Ok(())
}

harnesses! {
}
