// hooks for samplerz (included into /repo/falcon-rust/src/samplerz.rs as `mod verif`).
// Unit U-SAMP: base_sampler (complete), ber_exp with approx_exp replaced by its contract.
include!(concat!(env!("FALCON_RUST_VERIF_DIR"), "/hooks/common.rs"));

/// Reverse cumulative distribution table of the Falcon specification (Table 3.1, 72-bit
/// precision), typed from the specification, not copied from the code under test.
const RCDT_SPEC: [u128; 18] = [
    3024686241123004913666,
    1564742784480091954050,
    636254429462080897535,
    199560484645026482916,
    47667343854657281903,
    8595902006365044063,
    1163297957344668388,
    117656387352093658,
    8867391802663976,
    496969357462633,
    20680885154299,
    638331848991,
    14602316184,
    247426747,
    3104126,
    28824,
    198,
    1,
];

/// Contract of approx_exp used by ber_exp's harness (assumed here; the integer recurrence is
/// discharged by Verus unit U-APPROX): for r in [0, ln 2) and ccs in [sigma_min/sigma_max, 1]
/// the result is an integer in [1, 2^63].  The harness chooses the value (any in that range) and
/// the stub returns it, so the harness can state BerExp's result in terms of it.
pub(crate) static mut STUB_APPROX_EXP: u64 = 0;
pub(crate) fn approx_exp_contract_stub(_x: f64, _ccs: f64) -> u64 {
    unsafe { STUB_APPROX_EXP }
}

/// BerExp of the specification on already-drawn bytes: Some(result) if decided within `k` bytes
fn spec_ber_exp_bytes(z: u64, bytes: &[u8]) -> Option<bool> {
    let mut idx = 0;
    let mut i: i32 = 64;
    loop {
        i -= 8;
        if idx >= bytes.len() {
            return None; // the specification would draw another byte
        }
        let w = (bytes[idx] as i32) - (((z >> i) & 0xff) as i32);
        idx += 1;
        if !(w == 0 && i > 0) {
            return Some(w < 0);
        }
    }
}

harnesses! {
    /// C09: base_sampler(u) == #{ i : u < RCDT[i] } for every 72-bit u
    #[kani::unwind(20)]
    fn base_sampler_contract(d) {
        let bytes: [u8; 9] = d.array();
        let mut u: u128 = 0;
        let mut k = 0;
        while k < 9 {
            u = (u << 8) | bytes[k] as u128;
            k += 1;
        }
        let mut expect = 0i16;
        let mut i = 0;
        while i < 18 {
            if u < RCDT_SPEC[i] {
                expect += 1;
            }
            i += 1;
        }
        let r = base_sampler(bytes);
        assert!(r == expect, "C09.base: base_sampler(u) == number of i with u < RCDT[i]");
        assert!(0 <= r && r <= 18, "C09.base.range");
        vcover!(r == 18, "reach: z0 = 18");
        vcover!(r == 0, "reach: z0 = 0");
        vcover!(r == 7, "reach: z0 = 7");
    }

    /// C09: ber_exp is total and equals BerExp whenever the supplied 7 bytes decide the
    /// comparison; approx_exp is replaced by its contract (any value in [1, 2^63]).
    #[kani::unwind(10)]
    #[kani::stub(approx_exp, verif::approx_exp_contract_stub)]
    fn ber_exp_contract(d) {
        let x = d.f64();
        let ccs = d.f64();
        // domain sampler_z passes: x >= 0 finite and not huge, ccs in (0, 1]
        vassume!(x >= 0.0 && x <= 1.0e6);
        vassume!(ccs > 0.5 && ccs <= 1.0);
        let a = d.u64();
        vassume!(a >= 1 && a <= (1u64 << 63));
        unsafe { STUB_APPROX_EXP = a; }
        let bytes: [u8; 7] = d.array();
        // BerExp of the specification: s = floor(x / ln 2) capped at 63, z = (2a - 1) >> s
        let s = f64::floor(x / std::f64::consts::LN_2);
        let sh = if s >= 63.0 { 63u32 } else { s as u32 };
        let z = ((((a as u128) << 1) - 1) >> sh) as u64;
        let spec = spec_ber_exp_bytes(z, &bytes);
        let r = ber_exp(x, ccs, bytes);
        if let Some(expect) = spec {
            assert!(r == expect, "C09.ber_exp: equals BerExp when the supplied bytes decide");
        }
        vcover!(x > 44.0, "reach: s = 63 saturates");
        vcover!(x == 0.0, "reach: x = 0");
        vcover!(spec == Some(true), "reach: accept");
        vcover!(spec == Some(false), "reach: reject");
    }
}
