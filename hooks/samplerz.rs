// hooks for samplerz (included into /repo/falcon-rust/src/samplerz.rs as `mod verif`).
// Unit U-SAMP: base_sampler (complete), ber_exp with approx_exp replaced by its contract.
include!(concat!(env!("FALCON_RUST_VERIF_DIR"), "/hooks/common.rs"));

/// Reverse cumulative distribution table of the Falcon specification (Table 3.1, 72-bit
/// precision), typed from the specification, not copied from the code under test.
const RCDT_SPEC: [u128; 18] = [
    3024686241123004913666,
    1564742784480091954050,
    636254429462080897535,
    199560484645026482916,
    47667343854657281903,
    8595902006365044063,
    1163297957344668388,
    117656387352093658,
    8867391802663976,
    496969357462633,
    20680885154299,
    638331848991,
    14602316184,
    247426747,
    3104126,
    28824,
    198,
    1,
];

/// Contract of approx_exp used by ber_exp's harness (assumed here; the integer recurrence is
/// discharged by Verus unit U-APPROX): for r in [0, ln 2) and ccs in [sigma_min/sigma_max, 1]
/// the result is an integer in [1, 2^63].  The harness chooses the value (any in that range) and
/// the stub returns it, so the harness can state BerExp's result in terms of it.
pub(crate) static mut STUB_APPROX_EXP: u64 = 0;
pub(crate) fn approx_exp_contract_stub(_x: f64, _ccs: f64) -> u64 {
    unsafe { STUB_APPROX_EXP }
}

/// BerExp of the specification on already-drawn bytes: Some(result) if decided within `k` bytes
fn spec_ber_exp_bytes(z: u64, bytes: &[u8]) -> Option<bool> {
    let mut idx = 0;
    let mut i: i32 = 64;
    loop {
        i -= 8;
        if idx >= bytes.len() {
            return None; // the specification would draw another byte
        }
        let w = (bytes[idx] as i32) - (((z >> i) & 0xff) as i32);
        idx += 1;
        if !(w == 0 && i > 0) {
            return Some(w < 0);
        }
    }
}

// ---- native witness search for sampler_z (bounded; witness production only) ----
/// SamplerZ (Algorithm 15) evaluated in doubles, over this crate's base_sampler and ber_exp
/// (both under contract in U-SAMP), drawing the same values in the same order from `rng`.
pub(crate) fn ref_sampler_z(mu: f64, sigma: f64, sigma_min: f64, rng: &mut dyn rand::RngCore) -> i64 {
    use rand::Rng;
    let sigma_max = 1.8205f64;
    let inv_2smax2 = 1.0 / (2.0 * sigma_max * sigma_max);
    let isigma = 1.0 / sigma;
    let dss = 0.5 * isigma * isigma;
    let fl = mu.floor();
    let r = mu - fl;
    let ccs = sigma_min * isigma;
    loop {
        let z0 = base_sampler(rng.gen()) as i64;
        let byte: u8 = rng.gen();
        let b = (byte & 1) as i64;
        let z = b + (2 * b - 1) * z0;
        let zr = z as f64 - r;
        let x = zr * zr * dss - (z0 * z0) as f64 * inv_2smax2;
        if ber_exp(x, ccs, rng.gen()) {
            return z.saturating_add(fl as i64);
        }
    }
}
pub(crate) fn samplerz_case(mu: f64, sigma: f64, sigma_min: f64, seed: u64) -> Result<(), String> {
    use rand::SeedableRng;
    let got = std::panic::catch_unwind(move || {
        let mut rng = rand::rngs::StdRng::seed_from_u64(seed);
        sampler_z(mu, sigma, sigma_min, &mut rng) as i64
    });
    let got = match got { Ok(v) => v, Err(_) => return Err(format!("sampler_z({:e}, {}, {}) panics", mu, sigma, sigma_min)) };
    let mut rng = rand::rngs::StdRng::seed_from_u64(seed);
    let want = ref_sampler_z(mu, sigma, sigma_min, &mut rng);
    if mu.abs() < 9.0e18 && got != want { return Err(format!("sampler_z({:e}, {}, {}) = {} but Algorithm 15 on the same random bytes gives {}", mu, sigma, sigma_min, got, want)); }
    Ok(())
}
pub(crate) fn search_samplerz(seed: u64) -> Option<String> {
    let mut st = seed.wrapping_mul(6364136223846793005).wrapping_add(1442695040888963407) | 1;
    let mut rnd = move || { st ^= st << 13; st ^= st >> 7; st ^= st << 17; st };
    let arg = |mu: f64, sg: f64, sm: f64, sd: u64| format!("argv=samplerz-case,{:016x},{:016x},{:016x},{}", mu.to_bits(), sg.to_bits(), sm.to_bits(), sd);
    for sm in [1.2778336969128337f64, 1.298280334344292] {
        // extreme centres: totality
        for mu in [0.0f64, -0.0, 0.5, -0.5, 32766.5, -32768.5, 40000.0, -40000.0, 1.0e10, -1.0e10, 9.3e18, -9.3e18, 1.0e300, -1.0e300] {
            for sg in [sm, 1.5, 1.8205] {
                if let Err(why) = samplerz_case(mu, sg, sm, 7) { return Some(format!("{} | {}", why, arg(mu, sg, sm, 7))); }
            }
        }
        // the sampler as ffSampling calls it at a leaf
        let nn = if sm < 1.29 { 512usize } else { 1024 };
        for k in 0..400u64 {
            let mu0 = ((rnd() % 200_001) as f64 - 100_000.0) / 1000.0;
            let mu1 = ((rnd() % 200_001) as f64 - 100_000.0) / 1000.0;
            let sg = sm + (1.8205 - sm) * ((rnd() % 1001) as f64 / 1000.0);
            if let Err(why) = crate::ffsampling::verif::leaf_case(mu0, mu1, sg, nn, k) {
                return Some(format!("{} | argv=leaf-case,{:016x},{:016x},{:016x},{},{}", why, mu0.to_bits(), mu1.to_bits(), sg.to_bits(), nn, k));
            }
        }
        // agreement with Algorithm 15 on the same bytes
        for k in 0..20000u64 {
            let mu = ((rnd() % 2_000_001) as f64 - 1_000_000.0) / 1000.0;
            let sg = sm + (1.8205 - sm) * ((rnd() % 1001) as f64 / 1000.0);
            if let Err(why) = samplerz_case(mu, sg, sm, k) { return Some(format!("{} | {}", why, arg(mu, sg, sm, k))); }
        }
    }
    None
}

harnesses! {
    /// C09: base_sampler(u) == #{ i : u < RCDT[i] } for every 72-bit u
    #[kani::unwind(20)]
    fn base_sampler_contract(d) {
        let bytes: [u8; 9] = d.array();
        let mut u: u128 = 0;
        let mut k = 0;
        while k < 9 {
            u = (u << 8) | bytes[k] as u128;
            k += 1;
        }
        let mut expect = 0i16;
        let mut i = 0;
        while i < 18 {
            if u < RCDT_SPEC[i] {
                expect += 1;
            }
            i += 1;
        }
        let r = base_sampler(bytes);
        assert!(r == expect, "C09.base: base_sampler(u) == number of i with u < RCDT[i]");
        assert!(0 <= r && r <= 18, "C09.base.range");
        vcover!(r == 18, "reach: z0 = 18");
        vcover!(r == 0, "reach: z0 = 0");
        vcover!(r == 7, "reach: z0 = 7");
    }

    /// C09: ber_exp is total and equals BerExp whenever the supplied 7 bytes decide the
    /// comparison; approx_exp is replaced by its contract (any value in [1, 2^63]).
    #[kani::unwind(10)]
    #[kani::stub(approx_exp, verif::approx_exp_contract_stub)]
    fn ber_exp_contract(d) {
        let x = d.f64();
        let ccs = d.f64();
        // domain sampler_z passes: x >= 0 finite and not huge, ccs in (0, 1]
        vassume!(x >= 0.0 && x <= 1.0e6);
        vassume!(ccs > 0.5 && ccs <= 1.0);
        let a = d.u64();
        vassume!(a >= 1 && a <= (1u64 << 63));
        unsafe { STUB_APPROX_EXP = a; }
        let bytes: [u8; 7] = d.array();
        // BerExp of the specification: s = floor(x / ln 2) capped at 63, z = (2a - 1) >> s
        let s = f64::floor(x / std::f64::consts::LN_2);
        let sh = if s >= 63.0 { 63u32 } else { s as u32 };
        let z = ((((a as u128) << 1) - 1) >> sh) as u64;
        let spec = spec_ber_exp_bytes(z, &bytes);
        let r = ber_exp(x, ccs, bytes);
        if let Some(expect) = spec {
            assert!(r == expect, "C09.ber_exp: equals BerExp when the supplied bytes decide");
        }
        vcover!(x > 44.0, "reach: s = 63 saturates");
        vcover!(x == 0.0, "reach: x = 0");
        vcover!(spec == Some(true), "reach: accept");
        vcover!(spec == Some(false), "reach: reject");
    }
}
