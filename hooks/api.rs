// hooks/api.rs — included into /repo/falcon-rust/src/lib.rs as `pub mod verif_api` under
// --cfg falcon_rust_verif.  (1) input-drawing abstraction shared by all harnesses, (2) public
// entry points for the replay tool (/verif/replay).

pub trait Draw {
    fn bytes(&mut self, n: usize) -> Vec<u8>;
    fn u8(&mut self) -> u8;
    fn u16(&mut self) -> u16;
    fn u32(&mut self) -> u32;
    fn u64(&mut self) -> u64;
    fn u128(&mut self) -> u128;
    fn usize(&mut self) -> usize;
    fn i16(&mut self) -> i16;
    fn i32(&mut self) -> i32;
    fn i64(&mut self) -> i64;
    fn bool(&mut self) -> bool;
    fn f64(&mut self) -> f64;
    fn array<const K: usize>(&mut self) -> [u8; K];
}

/// Symbolic source: every draw is one `kani::any()` of the stated type.
#[cfg(kani)]
pub struct Sym;
#[cfg(kani)]
impl Draw for Sym {
    fn bytes(&mut self, n: usize) -> Vec<u8> {
        let mut v = Vec::with_capacity(n);
        for _ in 0..n {
            v.push(kani::any());
        }
        v
    }
    fn u8(&mut self) -> u8 { kani::any() }
    fn u16(&mut self) -> u16 { kani::any() }
    fn u32(&mut self) -> u32 { kani::any() }
    fn u64(&mut self) -> u64 { kani::any() }
    fn u128(&mut self) -> u128 { kani::any() }
    fn usize(&mut self) -> usize { kani::any() }
    fn i16(&mut self) -> i16 { kani::any() }
    fn i32(&mut self) -> i32 { kani::any() }
    fn i64(&mut self) -> i64 { kani::any() }
    fn bool(&mut self) -> bool { kani::any() }
    fn f64(&mut self) -> f64 { kani::any() }
    fn array<const K: usize>(&mut self) -> [u8; K] { kani::any() }
}

/// Concrete source: the `Vec<Vec<u8>>` of a Kani concrete-playback test, consumed in order
/// (one entry per `kani::any()` call, little-endian).
pub struct Conc {
    pub vals: Vec<Vec<u8>>,
    pub next: usize,
}
impl Conc {
    pub fn new(vals: Vec<Vec<u8>>) -> Self {
        Conc { vals, next: 0 }
    }
    fn take<const K: usize>(&mut self) -> [u8; K] {
        let mut out = [0u8; K];
        if let Some(v) = self.vals.get(self.next) {
            for (i, b) in v.iter().take(K).enumerate() {
                out[i] = *b;
            }
        }
        self.next += 1;
        out
    }
}
impl Draw for Conc {
    fn bytes(&mut self, n: usize) -> Vec<u8> {
        (0..n).map(|_| self.u8()).collect()
    }
    fn u8(&mut self) -> u8 { self.take::<1>()[0] }
    fn u16(&mut self) -> u16 { u16::from_le_bytes(self.take()) }
    fn u32(&mut self) -> u32 { u32::from_le_bytes(self.take()) }
    fn u64(&mut self) -> u64 { u64::from_le_bytes(self.take()) }
    fn u128(&mut self) -> u128 { u128::from_le_bytes(self.take()) }
    fn usize(&mut self) -> usize { u64::from_le_bytes(self.take()) as usize }
    fn i16(&mut self) -> i16 { i16::from_le_bytes(self.take()) }
    fn i32(&mut self) -> i32 { i32::from_le_bytes(self.take()) }
    fn i64(&mut self) -> i64 { i64::from_le_bytes(self.take()) }
    fn bool(&mut self) -> bool { self.take::<1>()[0] & 1 == 1 }
    fn f64(&mut self) -> f64 { f64::from_le_bytes(self.take()) }
    fn array<const K: usize>(&mut self) -> [u8; K] {
        let mut a = [0u8; K];
        for i in 0..K {
            a[i] = self.u8();
        }
        a
    }
}

/// Replay a Kani counterexample natively against the real code.  Returns Err(panic message) if
/// the harness body panics (assertion of the contract fails, or the code under test panics).
pub fn replay_harness(name: &str, vals: Vec<Vec<u8>>) -> Result<bool, String> {
    let name = name.to_string();
    let r = std::panic::catch_unwind(move || {
        let mut c = Conc::new(vals);
        crate::falcon_field::verif::replay(&name, &mut c)
            || crate::u32_field::verif::replay(&name, &mut c)
            || crate::fast_fft::verif::replay(&name, &mut c)
            || crate::encoding::verif::replay(&name, &mut c)
            || crate::falcon::verif::replay(&name, &mut c)
            || crate::samplerz::verif::replay(&name, &mut c)
            || crate::polynomial::verif::replay(&name, &mut c)
            || crate::inverse::verif::replay(&name, &mut c)
            || crate::cyclotomic_fourier::verif::replay(&name, &mut c)
            || crate::math::verif::replay(&name, &mut c)
            || crate::ffsampling::verif::replay(&name, &mut c)
    });
    match r {
        Ok(found) => Ok(found),
        Err(e) => {
            let msg = if let Some(s) = e.downcast_ref::<&str>() {
                s.to_string()
            } else if let Some(s) = e.downcast_ref::<String>() {
                s.clone()
            } else {
                "panic".to_string()
            };
            Err(msg)
        }
    }
}

fn unhex(s: &str) -> Vec<u8> {
    (0..s.len() / 2).map(|i| u8::from_str_radix(&s[2 * i..2 * i + 2], 16).unwrap()).collect()
}
fn hex(b: &[u8]) -> String {
    b.iter().map(|x| format!("{:02x}", x)).collect()
}

/// Other replay-tool subcommands: run one real function on one concrete input.
/// Exit code 0 = returned normally (result printed), 1 = panicked (REPRODUCED-PANIC printed).
pub fn tool(cmd: &str, args: &[String]) -> i32 {
    let cmd = cmd.to_string();
    let args: Vec<String> = args.to_vec();
    let r = std::panic::catch_unwind(move || match cmd.as_str() {
        "decompress" => {
            let x = unhex(&args[0]);
            let n: usize = args[1].parse().unwrap();
            let r = crate::encoding::decompress(&x, n);
            println!("decompress({}, {}) = {:?}", args[0], n, r);
            if let Some(v) = &r {
                let back = crate::encoding::compress(v, x.len());
                println!("recompress = {:?}", back.as_ref().map(|b| hex(b)));
                if back.as_deref() != Some(&x[..]) {
                    println!("NON-CANONICAL: accepted string does not re-encode to itself");
                    return 3;
                }
            }
            0
        }
        "compress" => {
            let v: Vec<i16> = args[0].split(',').filter(|s| !s.is_empty()).map(|s| s.parse().unwrap()).collect();
            let l: usize = args[1].parse().unwrap();
            let r = crate::encoding::compress(&v, l);
            println!("compress({:?}, {}) = {:?}", v, l, r.as_ref().map(|b| hex(b)));
            if let Some(b) = &r {
                let back = crate::encoding::decompress(b, v.len());
                println!("decompress back = {:?}", back);
                if back.as_ref() != Some(&v) {
                    println!("ROUND-TRIP-FAILS");
                    return 3;
                }
            }
            0
        }
        "verify-boundary" => {
            // verify-boundary <512|1024> <delta>: exit 3 if the verdict differs from Algorithm 16
            let n: usize = args[0].parse().unwrap();
            let delta: i64 = args[1].parse().unwrap();
            let (got, norm) = if n == 512 { crate::falcon::verif::verify_at_boundary::<512>(delta) }
                              else { crate::falcon::verif::verify_at_boundary::<1024>(delta) };
            let expect = delta <= 0;
            println!("verify at squared norm {} (= floor(beta^2) {:+}): returned {}, Algorithm 16 says {}", norm, delta, got, expect);
            if got != expect { println!("VERDICT-DIFFERS"); 3 } else { 0 }
        }
        "verify-case" => {
            // verify-case <N> <m hex> <salt hex> <body hex> <h as big-endian u16 hex>
            let n: usize = args[0].parse().unwrap();
            let m = unhex(&args[1]);
            let salt: [u8; 40] = unhex(&args[2]).try_into().unwrap();
            let body = unhex(&args[3]);
            let hb = unhex(&args[4]);
            let h: Vec<i64> = hb.chunks(2).map(|c| (((c[0] as u16) << 8) | c[1] as u16) as i64).collect();
            let r = if n == 512 { crate::falcon::verif::verify_case::<512>(&m, salt, &body, &h) }
                    else { crate::falcon::verif::verify_case::<1024>(&m, salt, &body, &h) };
            match r {
                Ok(()) => { println!("verify agrees with Algorithm 16 on this case"); 0 }
                Err(why) => { println!("REPRODUCED {}", why); 1 }
            }
        }
        "pk-case" => {
            // pk-case <512|1024> <hex>: strictness of PublicKey::from_bytes on one byte string
            let n: usize = args[0].parse().unwrap();
            let b = unhex(&args[1]);
            let r = if n == 512 { crate::falcon512::PublicKey::from_bytes(&b).map(|k| k.to_bytes()) }
                    else { crate::falcon1024::PublicKey::from_bytes(&b).map(|k| k.to_bytes()) };
            match r {
                Ok(back) if back == b => { println!("accepted; re-encoding reproduces the input"); 0 }
                Ok(back) => {
                    let i = back.iter().zip(b.iter()).position(|(x, y)| x != y).unwrap_or(0);
                    println!("REPRODUCED accepted a non-canonical public key: re-encoding differs at byte {} ({:02x} vs {:02x})", i, back[i], b[i]);
                    1
                }
                Err(e) => { println!("rejected: {:?}", e); 0 }
            }
        }
        "decompress-case" => {
            let x = unhex(&args[0]);
            let n: usize = args[1].parse().unwrap();
            match crate::falcon::verif::codec_case(&x, n) {
                Ok(()) => { println!("decompress agrees with Algorithm 18 on this case"); 0 }
                Err(why) => { println!("REPRODUCED {}", why); 1 }
            }
        }
        "compress-case" => {
            let v: Vec<i16> = args[0].split(';').filter(|s| !s.is_empty()).map(|s| s.parse().unwrap()).collect();
            let l: usize = args[1].parse().unwrap();
            match crate::falcon::verif::compress_case(&v, l) {
                Ok(()) => { println!("compress agrees with Algorithm 17 on this case"); 0 }
                Err(why) => { println!("REPRODUCED {}", why); 1 }
            }
        }
        "search-codec" => {
            let seed: u64 = args.get(0).and_then(|s| s.parse().ok()).unwrap_or(0);
            match crate::falcon::verif::search_codec(seed) {
                Some(d) => { println!("WITNESS {}", d); 1 }
                None => { println!("NO-WITNESS (bounded directed search: all 1- and 2-byte strings, perturbed encodings of boundary vectors, long runs, tight alignments)"); 0 }
            }
        }
        "h2p-case" => {
            let n: usize = args[0].parse().unwrap();
            let b = unhex(args.get(1).map(|s| s.as_str()).unwrap_or(""));
            match crate::falcon::verif::h2p_case(&b, n) {
                Ok(()) => { println!("hash_to_point agrees with Algorithm 3 on this input"); 0 }
                Err(why) => { println!("REPRODUCED {}", why); 1 }
            }
        }
        "search-h2p" => {
            let seed: u64 = args.get(0).and_then(|s| s.parse().ok()).unwrap_or(0);
            match crate::falcon::verif::search_h2p(seed) {
                Some(d) => { println!("WITNESS {}", d); 1 }
                None => { println!("NO-WITNESS (bounded search: 60004 strings at n = 512 and 1024, 300 strings at 8 other lengths)"); 0 }
            }
        }
        "sign-case" => {
            let msgs: Vec<Vec<u8>> = args.get(0).map(|s| s.as_str()).unwrap_or("").split(';').filter(|s| !s.is_empty()).map(|s| unhex(&s[1..])).collect();
            match crate::falcon::verif::sign_case(&msgs) {
                Ok(()) => { println!("all signatures verify and carry pairwise distinct salts"); 0 }
                Err(why) => { println!("REPRODUCED {}", why); 1 }
            }
        }
        "search-sign" => {
            let seed: u64 = args.get(0).and_then(|s| s.parse().ok()).unwrap_or(0);
            match crate::falcon::verif::search_sign(seed) {
                Some(d) => { println!("WITNESS {}", d); 1 }
                None => { println!("NO-WITNESS (12 honest Falcon-512 signatures of 4 messages on two threads)"); 0 }
            }
        }
        "keygen-case" => {
            let n: usize = args[0].parse().unwrap();
            // seed: 64 hex digits, or a small number s meaning [s; 32]
            let mut seed = [0u8; 32];
            if args[1].len() == 64 { seed.copy_from_slice(&unhex(&args[1])); } else { seed = [args[1].parse::<u8>().unwrap(); 32]; }
            let r = if n == 512 { crate::falcon::verif::keygen_case::<512>(seed) } else { crate::falcon::verif::keygen_case::<1024>(seed) };
            match r { Ok(()) => { println!("the key pair of this seed is a valid NTRU trapdoor with in-range leaves and survives serialisation"); 0 } Err(why) => { println!("REPRODUCED {}", why); 1 } }
        }
        "search-keygen" => {
            let seed: u64 = args.get(0).and_then(|s| s.parse().ok()).unwrap_or(0);
            match crate::falcon::verif::search_keygen(seed) {
                Some(d) => { println!("WITNESS {}", d); 1 }
                None => { println!("NO-WITNESS (key pairs of 7 seeds at n = 512 and of [0;32] at n = 1024)"); 0 }
            }
        }
        "sk-str-case" => {
            let n: usize = args[0].parse().unwrap();
            let mr = args[1] == "1";
            let b = unhex(args.get(2).map(|s| s.as_str()).unwrap_or(""));
            let r = if n == 512 { crate::falcon::verif::sk_str_case::<512>(&b, mr) } else { crate::falcon::verif::sk_str_case::<1024>(&b, mr) };
            match r { Ok(()) => { println!("SecretKey::from_bytes is strict on this string"); 0 } Err(why) => { println!("REPRODUCED {}", why); 1 } }
        }
        "search-sk" => {
            let seed: u64 = args.get(0).and_then(|s| s.parse().ok()).unwrap_or(0);
            match crate::falcon::verif::search_sk(seed) {
                Some(d) => { println!("WITNESS {}", d); 1 }
                None => { println!("NO-WITNESS (perturbed encodings of one Falcon-512 secret key: lengths, header bits, reserved field values, 200 bit flips; plus search-keygen)"); 0 }
            }
        }
        "samplerz-case" => {
            let f = |i: usize| f64::from_bits(u64::from_str_radix(&args[i], 16).unwrap());
            let sd: u64 = args[3].parse().unwrap();
            match crate::samplerz::verif::samplerz_case(f(0), f(1), f(2), sd) {
                Ok(()) => { println!("sampler_z returns and agrees with Algorithm 15 on this input"); 0 }
                Err(why) => { println!("REPRODUCED {}", why); 1 }
            }
        }
        "search-samplerz" => {
            let seed: u64 = args.get(0).and_then(|s| s.parse().ok()).unwrap_or(0);
            match crate::samplerz::verif::search_samplerz(seed) {
                Some(d) => { println!("WITNESS {}", d); 1 }
                None => { println!("NO-WITNESS (sampler_z at 14 extreme centres x 3 widths x 2 sigma_min; 40000 random (mu, sigma') against Algorithm 15 on the same bytes; 800 leaf calls of ffsampling)"); 0 }
            }
        }
        "batchinv-case" => {
            let v: Vec<i64> = args.get(0).map(|s| s.as_str()).unwrap_or("").split(';').filter(|s| !s.is_empty()).map(|s| s.parse().unwrap()).collect();
            match crate::falcon::verif::batchinv_case(&v) {
                Ok(()) => { println!("batch inversion is exact on this vector"); 0 }
                Err(why) => { println!("REPRODUCED {}", why); 1 }
            }
        }
        "search-batchinv" => {
            let seed: u64 = args.get(0).and_then(|s| s.parse().ok()).unwrap_or(0);
            match crate::falcon::verif::search_batchinv(seed) {
                Some(d) => { println!("WITNESS {}", d); 1 }
                None => { println!("NO-WITNESS (70 vectors of residues with and without zeros, lengths 0..70)"); 0 }
            }
        }
        "leaf-case" => {
            let f = |i: usize| f64::from_bits(u64::from_str_radix(&args[i], 16).unwrap());
            let n: usize = args[3].parse().unwrap();
            let sd: u64 = args[4].parse().unwrap();
            match crate::ffsampling::verif::leaf_case(f(0), f(1), f(2), n, sd) {
                Ok(()) => { println!("the leaf case of ffsampling agrees with SamplerZ on this input"); 0 }
                Err(why) => { println!("REPRODUCED {}", why); 1 }
            }
        }
        "ntt-case" => {
            let pa: Vec<i64> = args[0].split(';').filter(|s| !s.is_empty()).map(|s| s.parse().unwrap()).collect();
            let pb: Vec<i64> = args[1].split(';').filter(|s| !s.is_empty()).map(|s| s.parse().unwrap()).collect();
            match crate::falcon::verif::ntt_case(&pa, &pb) {
                Ok(()) => { println!("the NTT product agrees with the schoolbook negacyclic product on this case"); 0 }
                Err(why) => { println!("REPRODUCED {}", why); 1 }
            }
        }
        "search-ntt" => {
            let seed: u64 = args.get(0).and_then(|s| s.parse().ok()).unwrap_or(0);
            match crate::falcon::verif::search_ntt(seed) {
                Some(d) => { println!("WITNESS {}", d); 1 }
                None => { println!("NO-WITNESS (bounded directed search: every power-of-two length up to 1024, 4 operand patterns each)"); 0 }
            }
        }
        "pk-obj-case" => {
            let n: usize = args[0].parse().unwrap();
            let h: Vec<i64> = args[1].split(';').filter(|s| !s.is_empty()).map(|s| s.parse().unwrap()).collect();
            let r = if n == 512 { crate::falcon::verif::pk_obj_case::<512>(&h) } else { crate::falcon::verif::pk_obj_case::<1024>(&h) };
            match r { Ok(()) => { println!("public key round trip ok"); 0 } Err(why) => { println!("REPRODUCED {}", why); 1 } }
        }
        "pk-str-case" => {
            let n: usize = args[0].parse().unwrap();
            let b = unhex(args.get(1).map(|s| s.as_str()).unwrap_or(""));
            let r = if n == 512 { crate::falcon::verif::pk_case::<512>(&b) } else { crate::falcon::verif::pk_case::<1024>(&b) };
            match r { Ok(()) => { println!("PublicKey::from_bytes agrees with the layout specification on this string"); 0 } Err(why) => { println!("REPRODUCED {}", why); 1 } }
        }
        "search-pk" => {
            let seed: u64 = args.get(0).and_then(|s| s.parse().ok()).unwrap_or(0);
            match crate::falcon::verif::search_pk(seed) {
                Some(d) => { println!("WITNESS {}", d); 1 }
                None => { println!("NO-WITNESS (bounded directed search: special public keys and perturbed encodings, both variants)"); 0 }
            }
        }
        "model-bitvec" => {
            // cross-check of the dependency models used by the Verus units against the real crates:
            // bit_vec::BitVec (from_bytes MSB first, len, index, get, push, append, to_bytes zero padded),
            // itertools chunks over its iterator with skip / take, num_integer div_mod_floor, usize::ilog2.
            use bit_vec::BitVec;
            use itertools::Itertools;
            use num::Integer;
            let mut st: u64 = args.get(0).and_then(|s| s.parse().ok()).unwrap_or(1u64) | 1;
            let mut rnd = move || { st ^= st << 13; st ^= st >> 7; st ^= st << 17; st };
            let bit = |x: &[u8], p: usize| (x[p / 8] >> (7 - p % 8)) & 1 == 1;
            let mut cases = 0u64;
            let mut check = |x: &[u8]| -> Result<(), String> {
                let bv = BitVec::from_bytes(x);
                if bv.len() != 8 * x.len() { return Err("from_bytes length".into()); }
                for p in 0..bv.len() { if bv[p] != bit(x, p) || bv.get(p) != Some(bit(x, p)) { return Err(format!("bit {} of from_bytes", p)); } }
                if bv.get(bv.len()).is_some() { return Err("get past the end".into()); }
                if bv.to_bytes() != x { return Err("to_bytes(from_bytes(x)) != x".into()); }
                // push / append / to_bytes zero padding
                let mut a = BitVec::new();
                for p in 0..bv.len().min(13) { a.push(bv[p]); }
                let mut b2 = BitVec::from_bytes(&[0xa5]);
                let alen = a.len();
                a.append(&mut b2);
                if a.len() != alen + 8 || b2.len() != 0 { return Err("append lengths".into()); }
                let packed = a.to_bytes();
                if packed.len() != (a.len() + 7) / 8 { return Err("to_bytes length".into()); }
                for p in 0..8 * packed.len() { let want = if p < a.len() { a[p] } else { false }; if bit(&packed, p) != want { return Err("to_bytes bits / padding".into()); } }
                // chunks with skip / take
                for (skip, take, w) in [(0usize, usize::MAX, 14usize), (3, 11, 5), (8, 12, 6), (0, 7, 8), (40, 5, 5)] {
                    let real: Vec<Vec<bool>> = bv.iter().skip(skip).take(take).chunks(w).into_iter().map(|c| c.collect_vec()).collect_vec();
                    let lo = skip.min(bv.len());
                    let hi = if take == usize::MAX { bv.len() } else { (lo + take).min(bv.len()) };
                    let nch = (hi - lo + w - 1) / w;
                    if real.len() != nch { return Err(format!("number of chunks skip={} take={} w={}", skip, take, w)); }
                    for c in 0..nch {
                        let a0 = lo + c * w; let b0 = (a0 + w).min(hi);
                        let want: Vec<bool> = (a0..b0).map(|p| bv[p]).collect();
                        if real[c] != want { return Err(format!("chunk {} skip={} take={} w={}", c, skip, take, w)); }
                    }
                }
                Ok(())
            };
            let mut fail: Option<String> = None;
            'outer: for a in 0..=255u8 {
                cases += 1;
                if let Err(e) = check(&[a]) { fail = Some(format!("{} on [{:02x}]", e, a)); break; }
                for b in (0..=255u8).step_by(5) {
                    cases += 1;
                    if let Err(e) = check(&[a, b]) { fail = Some(format!("{} on [{:02x},{:02x}]", e, a, b)); break 'outer; }
                }
            }
            if fail.is_none() {
                for _ in 0..300 {
                    let len = (rnd() % 40) as usize;
                    let x: Vec<u8> = (0..len).map(|_| rnd() as u8).collect();
                    cases += 1;
                    if let Err(e) = check(&x) { fail = Some(format!("{} on {}", e, hex(&x))); break; }
                }
            }
            for n in 0..70000usize { let (d, m) = n.div_mod_floor(&8); if d != n / 8 || m != n % 8 { fail = Some(format!("div_mod_floor({}, 8)", n)); break; } }
            for (n, l) in [(512usize, 9u32), (1024, 10), (625, 9), (1239, 10), (1, 0), (2, 1)] { if n.ilog2() != l || n.checked_ilog2() != Some(l) { fail = Some(format!("ilog2({})", n)); } }
            match fail {
                Some(f) => { println!("MODEL-MISMATCH {}", f); 1 }
                None => { println!("MODEL-OK bit_vec / itertools chunks / div_mod_floor / ilog2 agree with the Verus-side models on {} cases", cases); 0 }
            }
        }
        "search-verify" => {
            let seed: u64 = args.get(0).and_then(|s| s.parse().ok()).unwrap_or(0);
            let w = crate::falcon::verif::search_verify::<512>(seed)
                .or_else(|| crate::falcon::verif::search_verify::<1024>(seed));
            match w {
                Some(d) => { println!("WITNESS {}", d); 1 }
                None => { println!("NO-WITNESS (bounded directed search over crafted keys, 2 variants x 12 x 4 cases)"); 0 }
            }
        }
        _ => {
            eprintln!("unknown subcommand {}", cmd);
            2
        }
    });
    match r {
        Ok(c) => c,
        Err(e) => {
            let msg = if let Some(s) = e.downcast_ref::<&str>() { s.to_string() }
                else if let Some(s) = e.downcast_ref::<String>() { s.clone() } else { "panic".into() };
            println!("REPRODUCED-PANIC {:?}", msg);
            1
        }
    }
}
