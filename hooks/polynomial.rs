// hooks for polynomial (included into /repo/falcon-rust/src/polynomial.rs as `mod verif` under
// --cfg falcon_rust_verif).
include!(concat!(env!("FALCON_RUST_VERIF_DIR"), "/hooks/common.rs"));

harnesses! {
}
