// hooks for fast_fft (included into /repo/falcon-rust/src/fast_fft.rs as `mod verif`).
// Unit U-TAB: the constant tables and n^-1 constants, checked entry by entry with a symbolic
// index (complete over the index range).  Arithmetic is done on u64 representatives, not with the
// Felt operators, so these statements do not depend on U-FELT.
include!(concat!(env!("FALCON_RUST_VERIF_DIR"), "/hooks/common.rs"));

use crate::falcon_field::verif::rep;

const QQ: u64 = 12289;

fn t(k: usize) -> u64 {
    rep(FELT_BITREVERSED_POWERS_1024[k]) as u64
}
fn ti(k: usize) -> u64 {
    rep(FELT_BITREVERSED_POWERS_INVERSE_1024[k]) as u64
}
fn bitrev10(i: usize) -> usize {
    let mut r = 0usize;
    let mut b = 0;
    while b < 10 {
        r |= ((i >> b) & 1) << (9 - b);
        b += 1;
    }
    r
}
/// base^e mod q for e < 1024, square-and-multiply over the 10 exponent bits
fn powq(base: u64, e: usize) -> u64 {
    let mut acc = 1u64;
    let mut b = 10;
    while b > 0 {
        b -= 1;
        acc = acc * acc % QQ;
        if (e >> b) & 1 == 1 {
            acc = acc * base % QQ;
        }
    }
    acc
}

/// table exports for other units' native tools
pub(crate) fn table(k: usize) -> u32 { t(k) as u32 }
pub(crate) fn table_inv(k: usize) -> u32 { ti(k) as u32 }

/// entry k of the forward twiddle table (for the native witness search)
pub(crate) fn tab_value(k: usize) -> i64 { FELT_BITREVERSED_POWERS_1024[k].value() as i64 }

harnesses! {
    /// every entry of both tables is a canonical residue
    fn tab_wf(d) {
        let k = d.usize();
        vassume!(k < 1024);
        assert!(t(k) < QQ, "C11.tab.wf: T[k] in [0,q)");
        assert!(ti(k) < QQ, "C11.tab.wf: TI[k] in [0,q)");
        vcover!(k == 1023, "reach: last entry");
    }

    /// the relations the forward transform consumes: T[0] = 1, T[2k]^2 = T[k], T[2k+1]^2 = -T[k]
    fn tab_square_relations(d) {
        let k = d.usize();
        vassume!(k < 512);
        assert!(t(0) == 1, "C11.tab.one: T[0] == 1");
        assert!(t(2 * k) * t(2 * k) % QQ == t(k), "C11.tab.sq_even: T[2k]^2 == T[k]");
        assert!((t(2 * k + 1) * t(2 * k + 1) + t(k)) % QQ == 0, "C11.tab.sq_odd: T[2k+1]^2 == -T[k]");
        vcover!(k == 511, "reach: k = 511");
        vcover!(k == 0, "reach: k = 0");
    }

    /// the inverse table is the entrywise inverse
    fn tab_inverse_relation(d) {
        let k = d.usize();
        vassume!(k < 1024);
        assert!(t(k) * ti(k) % QQ == 1, "C11.tab.inv: T[k] * TI[k] == 1");
        vcover!(k == 1023, "reach: last entry");
    }

    /// C11 literally: T[i] = psi^bitrev10(i), TI[i] = psi^-bitrev10(i), psi = T[512] a primitive
    /// 2048-th root of unity (psi^1024 = -1)
    #[kani::unwind(11)]
    fn tab_bitreversed_powers(d) {
        let i = d.usize();
        vassume!(i < 1024);
        let psi = t(512);
        let psi_inv = ti(512);
        assert!(psi * psi_inv % QQ == 1, "C11.tab.psi_inv");
        // psi^1024 == -1: psi^512 is T[1] by the statement below at i = 1; check directly too
        let p512 = powq(psi, 512);
        assert!(p512 * p512 % QQ == QQ - 1, "C11.tab.primitive: psi^1024 == -1");
        let e = bitrev10(i);
        assert!(t(i) == powq(psi, e), "C11.tab.powers: T[i] == psi^bitrev(i)");
        assert!(ti(i) == powq(psi_inv, e), "C11.tab.powers_inv: TI[i] == psi^-bitrev(i)");
        vcover!(i == 1023, "reach: last entry");
        vcover!(i == 1, "reach: i = 1");
    }

    /// n^-1 constants
    fn tab_ninv(d) {
        let c: [(u64, Felt); 11] = [
            (1, FELT_NINV_1), (2, FELT_NINV_2), (4, FELT_NINV_4), (8, FELT_NINV_8),
            (16, FELT_NINV_16), (32, FELT_NINV_32), (64, FELT_NINV_64), (128, FELT_NINV_128),
            (256, FELT_NINV_256), (512, FELT_NINV_512), (1024, FELT_NINV_1024),
        ];
        let j = d.usize();
        vassume!(j < 11);
        let (n, inv) = c[j];
        assert!((rep(inv) as u64) < QQ, "C11.ninv.wf");
        assert!(n * (rep(inv) as u64) % QQ == 1, "C11.ninv: n * NINV_n == 1");
        vcover!(j == 10, "reach: n = 1024");
    }

    /// ifft_inplace's `match n` selects NINV_n for every power of two up to 1024 and nothing else
    /// reaches the panic arm: checked through the real method on a polynomial of symbolic length
    /// is done in Verus (U-NTT); here only that the selected constant is the right one.
    fn tab_ninv_selected(d) {
        let lg = d.usize();
        vassume!(lg <= 10);
        let n = 1usize << lg;
        let ninv = match n {
            1 => FELT_NINV_1, 2 => FELT_NINV_2, 4 => FELT_NINV_4, 8 => FELT_NINV_8,
            16 => FELT_NINV_16, 32 => FELT_NINV_32, 64 => FELT_NINV_64, 128 => FELT_NINV_128,
            256 => FELT_NINV_256, 512 => FELT_NINV_512, _ => FELT_NINV_1024,
        };
        assert!((n as u64) * (rep(ninv) as u64) % QQ == 1, "C11.ninv.by_n");
        vcover!(lg == 10, "reach: 1024");
    }
}
