// hooks for falcon (included into /repo/falcon-rust/src/falcon.rs as `mod verif`).
// Units U-SIG (Signature::{to_bytes,from_bytes}) and U-SKF (secret-key field codec).
include!(concat!(env!("FALCON_RUST_VERIF_DIR"), "/hooks/common.rs"));

/// Contract of Signature::<N>::from_bytes / to_bytes for one variant (C05, C06, C03):
///   total;  Ok(sig) => sig.s.len() == TOTAL-41 and sig.to_bytes() == input (strict);
///   Err     => the input is not the layout of any signature of this variant, i.e. it does not
///              have length TOTAL with header 0b0101_LLLL (LLLL = log2 N);
///   and for every signature object of this variant from_bytes(to_bytes(sig)) == Ok(sig).
fn sig_from_bytes<const N: usize, const TOTAL: usize, D: crate::verif_api::Draw>(d: &mut D, hdr: u8) {
    let arr: [u8; 1300] = d.array();
    let len = d.usize();
    vassume!(len <= 1300);
    let b = &arr[..len];
    match Signature::<N>::from_bytes(b) {
        Ok(sig) => {
            assert!(len == TOTAL, "C06.sig.len: accepted only at the variant's length");
            assert!(sig.s.len() == TOTAL - 41, "C05.sig.inv: |s| == L_N");
            let back = sig.to_bytes();
            assert!(back.len() == len, "C06.sig.strict.len: re-encoding has the same length");
            let i = d.usize();
            vassume!(i < len);
            assert!(back[i] == b[i], "C06.sig.strict: re-encoding reproduces the input");
            vcover!(i == 0, "reach: header byte");
            vcover!(i == 40, "reach: last salt byte");
            vcover!(i == TOTAL - 1, "reach: last byte");
        }
        Err(_) => {
            assert!(!(len == TOTAL && b[0] == hdr), "C05.sig.complete: canonical layout accepted");
            vcover!(len == TOTAL, "reach: right length, bad header");
            vcover!(len == 0, "reach: empty input");
            vcover!(len == 1300, "reach: longest input");
        }
    }
}

fn sig_round_trip<const N: usize, const L: usize, D: crate::verif_api::Draw>(d: &mut D, hdr: u8) {
    let r: [u8; 40] = d.array();
    let s: [u8; L] = d.array();
    let sig = Signature::<N> { r, s: s.to_vec() };
    let bytes = sig.to_bytes();
    assert!(bytes.len() == L + 41, "C05.sig.size: fixed encoded size");
    assert!(bytes[0] == hdr, "C05.sig.header");
    match Signature::<N>::from_bytes(&bytes) {
        Ok(back) => {
            assert!(back.r == sig.r, "C05.sig.roundtrip.salt");
            assert!(back.s.len() == L, "C05.sig.roundtrip.len");
            let i = d.usize();
            vassume!(i < L);
            assert!(back.s[i] == s[i], "C05.sig.roundtrip.body");
            vcover!(i == L - 1, "reach: last body byte");
        }
        Err(_) => {
            assert!(false, "C05.sig.roundtrip: from_bytes(to_bytes(sig)) is Ok");
        }
    }
}

/// Witness construction for the norm boundary of `verify` (used by the replay tool): a message,
/// signature and public key whose (s1, s2) has squared norm exactly `floor(beta^2) + delta`.
/// s2 = (1, 0, ..., 0), h = c - s1 with c = HashToPoint(salt || m), s1 a vector of the wanted norm.
pub(crate) fn verify_at_boundary<const N: usize>(delta: i64) -> (bool, i64) {
    let bound: i64 = if N == 512 { 34034726 } else { 70265242 };
    let mut target = bound + delta - 1; // s2 contributes 1
    let mut s1 = vec![0i64; N];
    let mut k = 0;
    while target > 0 && k < N {
        let mut r = (target as f64).sqrt() as i64;
        while r * r > target { r -= 1; }
        while (r + 1) * (r + 1) <= target { r += 1; }
        if r > 6144 { r = 6144; }
        s1[k] = r;
        target -= r * r;
        k += 1;
    }
    assert!(target == 0, "could not decompose the target norm");
    let m = b"boundary witness".to_vec();
    let salt = [7u8; 40];
    let c = hash_to_point(&[salt.to_vec(), m.clone()].concat(), N);
    let h: Vec<Felt> = c.coefficients.iter().zip(s1.iter())
        .map(|(ci, s)| *ci - Felt::new(*s as i16)).collect();
    let pk = PublicKey::<N> { h: Polynomial::new(h) };
    let mut s2 = vec![0i16; N];
    s2[0] = 1;
    let total = if N == 512 { 666 } else { 1280 };
    let body = compress(&s2, total - 41).expect("s2 compresses");
    let sig = Signature::<N> { r: salt, s: body };
    (verify::<N>(&m, &sig, &pk), bound + delta)
}

const WIDTHS: [(usize, usize, usize); 4] = [(512, 0, 6), (1024, 0, 5), (512, 2, 8), (1024, 2, 8)];

harnesses! {
    fn sig512_from_bytes_contract(d) { sig_from_bytes::<512, 666, _>(d, 0x59) }
    fn sig1024_from_bytes_contract(d) { sig_from_bytes::<1024, 1280, _>(d, 0x5a) }
    fn sig512_round_trip(d) { sig_round_trip::<512, 625, _>(d, 0x59) }
    fn sig1024_round_trip(d) { sig_round_trip::<1024, 1239, _>(d, 0x5a) }

    /// the other variant's signature is rejected (covered by the contract above; stated apart)
    fn sig_cross_variant_rejected(d) {
        let a: [u8; 1280] = d.array();
        assert!(Signature::<512>::from_bytes(&a).is_err(), "C06.sig.variant: 1280 bytes are not a 512 signature");
        assert!(Signature::<1024>::from_bytes(&a[..666]).is_err(), "C06.sig.variant: 666 bytes are not a 1024 signature");
    }

    /// C05/C06 secret-key fields: widths, and encode/decode round trip on the encodable range
    #[kani::unwind(10)]
    fn skf_round_trip(d) {
        let sel = d.usize();
        vassume!(sel < 4);
        let (n, pi, w_spec) = WIDTHS[sel];
        let w = SecretKey::<512>::field_element_width(n, pi);
        assert!(w == w_spec, "C05.skf.width: 6/5 bits for f,g and 8 for F");
        assert!(SecretKey::<512>::field_element_width(n, 1) == SecretKey::<512>::field_element_width(n, 0), "C05.skf.width.g");
        let v = d.i16();
        let half = 1i16 << (w - 1);
        vassume!(-half < v && v < half);
        let e = Felt::new(v);
        let bits = SecretKey::<512>::serialize_field_element(w, e);
        assert!(bits.len() == w, "C05.skf.len");
        // two's complement, most significant bit first
        let j = d.usize();
        vassume!(j < w);
        assert!(bits[j] == (((v as u16) >> (w - 1 - j)) & 1 == 1), "C05.skf.layout: two's complement MSB first");
        match SecretKey::<512>::deserialize_field_element(&bits) {
            Ok(back) => assert!(back == e, "C05.skf.roundtrip"),
            Err(_) => assert!(false, "C05.skf.roundtrip: encodable value decodes"),
        }
        vcover!(v == -half + 1, "reach: most negative encodable");
        vcover!(v == half - 1, "reach: most positive encodable");
        vcover!(sel == 3, "reach: last width row");
    }

    /// C06 secret-key fields: every bit pattern either is the reserved 10..0 (rejected) or
    /// decodes to the value whose encoding is that pattern
    #[kani::unwind(10)]
    fn skf_strict(d) {
        let sel = d.usize();
        vassume!(sel < 3);
        let w = WIDTHS[sel].2;
        let pat = d.u16();
        vassume!((pat as u32) < (1u32 << w));
        let mut bits = BitVec::new();
        let mut i = 0;
        while i < w {
            bits.push((pat >> (w - 1 - i)) & 1 == 1);
            i += 1;
        }
        match SecretKey::<512>::deserialize_field_element(&bits) {
            Err(_) => assert!(pat == 1u16 << (w - 1), "C06.skf.reject: only the reserved pattern is rejected"),
            Ok(e) => {
                assert!(pat != 1u16 << (w - 1), "C06.skf.reserved: -2^(w-1) is rejected");
                // sign-extend the pattern
                let v: i16 = if pat >> (w - 1) == 1 { (pat as i16) - (1i16 << w) } else { pat as i16 };
                assert!(e == Felt::new(v), "C06.skf.value: two's complement value");
                let back = SecretKey::<512>::serialize_field_element(w, e);
                assert!(back == bits, "C06.skf.strict: re-encoding reproduces the bits");
            }
        }
        vcover!(pat == 1u16 << (w - 1), "reach: reserved pattern");
        vcover!(pat == 0, "reach: zero");
        vcover!(sel == 2, "reach: width 8");
    }
}
