// hooks for falcon (included into /repo/falcon-rust/src/falcon.rs as `mod verif`).
// Units U-SIG (Signature::{to_bytes,from_bytes}) and U-SKF (secret-key field codec).
include!(concat!(env!("FALCON_RUST_VERIF_DIR"), "/hooks/common.rs"));

/// Contract of Signature::<N>::from_bytes / to_bytes for one variant (C05, C06, C03):
///   total;  Ok(sig) => sig.s.len() == TOTAL-41 and sig.to_bytes() == input (strict);
///   Err     => the input is not the layout of any signature of this variant, i.e. it does not
///              have length TOTAL with header 0b0101_LLLL (LLLL = log2 N);
///   and for every signature object of this variant from_bytes(to_bytes(sig)) == Ok(sig).
fn sig_from_bytes<const N: usize, const TOTAL: usize, D: crate::verif_api::Draw>(d: &mut D, hdr: u8) {
    let arr: [u8; 1300] = d.array();
    let len = d.usize();
    vassume!(len <= 1300);
    let b = &arr[..len];
    match Signature::<N>::from_bytes(b) {
        Ok(sig) => {
            assert!(len == TOTAL, "C06.sig.len: accepted only at the variant's length");
            assert!(sig.s.len() == TOTAL - 41, "C05.sig.inv: |s| == L_N");
            let back = sig.to_bytes();
            assert!(back.len() == len, "C06.sig.strict.len: re-encoding has the same length");
            let i = d.usize();
            vassume!(i < len);
            assert!(back[i] == b[i], "C06.sig.strict: re-encoding reproduces the input");
            vcover!(i == 0, "reach: header byte");
            vcover!(i == 40, "reach: last salt byte");
            vcover!(i == TOTAL - 1, "reach: last byte");
        }
        Err(_) => {
            assert!(!(len == TOTAL && b[0] == hdr), "C05.sig.complete: canonical layout accepted");
            vcover!(len == TOTAL, "reach: right length, bad header");
            vcover!(len == 0, "reach: empty input");
            vcover!(len == 1300, "reach: longest input");
        }
    }
}

fn sig_round_trip<const N: usize, const L: usize, D: crate::verif_api::Draw>(d: &mut D, hdr: u8) {
    let r: [u8; 40] = d.array();
    let s: [u8; L] = d.array();
    let sig = Signature::<N> { r, s: s.to_vec() };
    let bytes = sig.to_bytes();
    assert!(bytes.len() == L + 41, "C05.sig.size: fixed encoded size");
    assert!(bytes[0] == hdr, "C05.sig.header");
    match Signature::<N>::from_bytes(&bytes) {
        Ok(back) => {
            assert!(back.r == sig.r, "C05.sig.roundtrip.salt");
            assert!(back.s.len() == L, "C05.sig.roundtrip.len");
            let i = d.usize();
            vassume!(i < L);
            assert!(back.s[i] == s[i], "C05.sig.roundtrip.body");
            vcover!(i == L - 1, "reach: last body byte");
        }
        Err(_) => {
            assert!(false, "C05.sig.roundtrip: from_bytes(to_bytes(sig)) is Ok");
        }
    }
}

/// Witness construction for the norm boundary of `verify` (used by the replay tool): a message,
/// signature and public key whose (s1, s2) has squared norm exactly `floor(beta^2) + delta`.
/// s2 = (1, 0, ..., 0), h = c - s1 with c = HashToPoint(salt || m), s1 a vector of the wanted norm.
pub(crate) fn verify_at_boundary<const N: usize>(delta: i64) -> (bool, i64) {
    let bound: i64 = if N == 512 { 34034726 } else { 70265242 };
    let mut target = bound + delta - 1; // s2 contributes 1
    let mut s1 = vec![0i64; N];
    let mut k = 0;
    while target > 0 && k < N {
        let mut r = (target as f64).sqrt() as i64;
        while r * r > target { r -= 1; }
        while (r + 1) * (r + 1) <= target { r += 1; }
        if r > 6144 { r = 6144; }
        s1[k] = r;
        target -= r * r;
        k += 1;
    }
    assert!(target == 0, "could not decompose the target norm");
    let m = b"boundary witness".to_vec();
    let salt = [7u8; 40];
    let c = hash_to_point(&[salt.to_vec(), m.clone()].concat(), N);
    let h: Vec<Felt> = c.coefficients.iter().zip(s1.iter())
        .map(|(ci, s)| *ci - Felt::new(*s as i16)).collect();
    let pk = PublicKey::<N> { h: Polynomial::new(h) };
    let mut s2 = vec![0i16; N];
    s2[0] = 1;
    let total = if N == 512 { 666 } else { 1280 };
    let body = compress(&s2, total - 41).expect("s2 compresses");
    let sig = Signature::<N> { r: salt, s: body };
    (verify::<N>(&m, &sig, &pk), bound + delta)
}

const WIDTHS: [(usize, usize, usize); 4] = [(512, 0, 6), (1024, 0, 5), (512, 2, 8), (1024, 2, 8)];

harnesses! {
    fn sig512_from_bytes_contract(d) { sig_from_bytes::<512, 666, _>(d, 0x59) }
    fn sig1024_from_bytes_contract(d) { sig_from_bytes::<1024, 1280, _>(d, 0x5a) }
    fn sig512_round_trip(d) { sig_round_trip::<512, 625, _>(d, 0x59) }
    fn sig1024_round_trip(d) { sig_round_trip::<1024, 1239, _>(d, 0x5a) }

    /// the other variant's signature is rejected (covered by the contract above; stated apart)
    fn sig_cross_variant_rejected(d) {
        let a: [u8; 1280] = d.array();
        assert!(Signature::<512>::from_bytes(&a).is_err(), "C06.sig.variant: 1280 bytes are not a 512 signature");
        assert!(Signature::<1024>::from_bytes(&a[..666]).is_err(), "C06.sig.variant: 666 bytes are not a 1024 signature");
    }

    /// C05/C06 secret-key fields: widths, and encode/decode round trip on the encodable range
    #[kani::unwind(10)]
    fn skf_round_trip(d) {
        let sel = d.usize();
        vassume!(sel < 4);
        let (n, pi, w_spec) = WIDTHS[sel];
        let w = SecretKey::<512>::field_element_width(n, pi);
        assert!(w == w_spec, "C05.skf.width: 6/5 bits for f,g and 8 for F");
        assert!(SecretKey::<512>::field_element_width(n, 1) == SecretKey::<512>::field_element_width(n, 0), "C05.skf.width.g");
        let v = d.i16();
        let half = 1i16 << (w - 1);
        vassume!(-half < v && v < half);
        let e = Felt::new(v);
        let bits = SecretKey::<512>::serialize_field_element(w, e);
        assert!(bits.len() == w, "C05.skf.len");
        // two's complement, most significant bit first
        let j = d.usize();
        vassume!(j < w);
        assert!(bits[j] == (((v as u16) >> (w - 1 - j)) & 1 == 1), "C05.skf.layout: two's complement MSB first");
        // the same statement in value form (the form imported by the Verus unit U-SK): the w bits,
        // read MSB first as a two's complement number, are the centred value
        let mut acc: i32 = 0;
        let mut t = 0;
        while t < w {
            acc = 2 * acc + bits[t] as i32;
            t += 1;
        }
        let signed = if bits[0] { acc - (1i32 << w) } else { acc };
        assert!(signed == v as i32, "C05.skf.value: signed value of the field bits == balanced value");
        match SecretKey::<512>::deserialize_field_element(&bits) {
            Ok(back) => assert!(back == e, "C05.skf.roundtrip"),
            Err(_) => assert!(false, "C05.skf.roundtrip: encodable value decodes"),
        }
        vcover!(v == -half + 1, "reach: most negative encodable");
        vcover!(v == half - 1, "reach: most positive encodable");
        vcover!(sel == 3, "reach: last width row");
    }

    /// C06 secret-key fields: every bit pattern either is the reserved 10..0 (rejected) or
    /// decodes to the value whose encoding is that pattern
    #[kani::unwind(10)]
    fn skf_strict(d) {
        // every field length a chunk of a (possibly truncated) key can have: 1..=8 bits
        let w = d.usize();
        vassume!(1 <= w && w <= 8);
        let pat = d.u16();
        vassume!((pat as u32) < (1u32 << w));
        let mut bits = BitVec::new();
        let mut i = 0;
        while i < w {
            bits.push((pat >> (w - 1 - i)) & 1 == 1);
            i += 1;
        }
        match SecretKey::<512>::deserialize_field_element(&bits) {
            Err(_) => assert!(pat == 1u16 << (w - 1), "C06.skf.reject: only the reserved pattern is rejected"),
            Ok(e) => {
                assert!(pat != 1u16 << (w - 1), "C06.skf.reserved: -2^(w-1) is rejected");
                // sign-extend the pattern
                let v: i16 = if pat >> (w - 1) == 1 { (pat as i16) - (1i16 << w) } else { pat as i16 };
                assert!(e == Felt::new(v), "C06.skf.value: two's complement value");
                let back = SecretKey::<512>::serialize_field_element(w, e);
                assert!(back == bits, "C06.skf.strict: re-encoding reproduces the bits");
            }
        }
        vcover!(pat == 1u16 << (w - 1), "reach: reserved pattern");
        vcover!(pat == 0, "reach: zero");
        vcover!(w == 8, "reach: width 8");
        vcover!(w == 1, "reach: width 1");
    }
}

/// Reference implementations typed from the Falcon specification (Algorithms 3, 16, 17, 18),
/// independent of the crate's code (only the sha3 crate is shared).  Used by the replay tool for
/// witness search and replay; never part of a proof.
pub(crate) mod refspec {
    use sha3::digest::{ExtendableOutput, Update, XofReader};

    pub const Q: i64 = 12289;

    fn bit(x: &[u8], p: usize) -> bool {
        (x[p / 8] >> (7 - p % 8)) & 1 == 1
    }
    /// Algorithm 18 with the magnitude bound of property C07 (unary run < 95)
    pub fn decompress(x: &[u8], n: usize) -> Option<Vec<i32>> {
        let nb = 8 * x.len();
        let mut p = 0usize;
        let mut out = Vec::new();
        if n == 0 {
            return None;
        }
        for _ in 0..n {
            if p + 9 > nb {
                return None;
            }
            let neg = bit(x, p);
            let mut low = 0i32;
            for j in 0..7 {
                low = (low << 1) | bit(x, p + 1 + j) as i32;
            }
            let mut k = 0usize;
            loop {
                if p + 8 + k >= nb {
                    return None;
                }
                if bit(x, p + 8 + k) {
                    break;
                }
                k += 1;
                if k >= 95 {
                    return None;
                }
            }
            let mag = 128 * k as i32 + low;
            if neg && mag == 0 {
                return None;
            }
            out.push(if neg { -mag } else { mag });
            p += 9 + k;
        }
        for q in p..nb {
            if bit(x, q) {
                return None;
            }
        }
        Some(out)
    }
    /// Algorithm 17
    pub fn compress(v: &[i16], l: usize) -> Option<Vec<u8>> {
        if v.is_empty() {
            return None;
        }
        let mut bits: Vec<bool> = Vec::new();
        for &c in v {
            let a = (c as i32).unsigned_abs();
            bits.push(c < 0);
            for j in (0..7).rev() {
                bits.push((a >> j) & 1 == 1);
            }
            for _ in 0..(a >> 7) {
                bits.push(false);
            }
            bits.push(true);
        }
        if bits.len() > 8 * l {
            return None;
        }
        let mut out = vec![0u8; l];
        for (p, b) in bits.iter().enumerate() {
            if *b {
                out[p / 8] |= 1 << (7 - p % 8);
            }
        }
        Some(out)
    }
    /// Algorithm 3
    pub fn hash_to_point(input: &[u8], n: usize) -> Vec<i64> {
        let mut h = sha3::Shake256::default();
        h.update(input);
        let mut r = h.finalize_xof();
        let mut out = Vec::new();
        while out.len() < n {
            let mut b = [0u8; 2];
            r.read(&mut b);
            let t = ((b[0] as i64) << 8) | b[1] as i64;
            if t < 61445 {
                out.push(t % Q);
            }
        }
        out
    }
    /// Algorithm 16 (schoolbook negacyclic product)
    pub fn verify(m: &[u8], salt: &[u8], s: &[u8], h: &[i64], n: usize) -> bool {
        let bound: i64 = if n == 512 { 34034726 } else { 70265242 };
        let s2 = match decompress(s, n) {
            Some(v) => v,
            None => return false,
        };
        let mut inp = salt.to_vec();
        inp.extend_from_slice(m);
        let c = hash_to_point(&inp, n);
        let mut norm: i64 = 0;
        for k in 0..n {
            let mut acc: i64 = 0;
            for i in 0..n {
                let (j, sign) = if k >= i { (k - i, 1) } else { (k + n - i, -1) };
                acc = (acc + sign * (s2[i] as i64) * h[j]).rem_euclid(Q);
            }
            let mut s1 = (c[k] - acc).rem_euclid(Q);
            if s1 > 6144 {
                s1 -= Q;
            }
            norm += s1 * s1;
        }
        for v in &s2 {
            norm += (*v as i64) * (*v as i64);
        }
        norm <= bound
    }
}

fn hexs(b: &[u8]) -> String {
    b.iter().map(|x| format!("{:02x}", x)).collect()
}

/// one verify case on the real code against the reference: Ok(agree) / Err(description)
pub(crate) fn verify_case<const N: usize>(m: &[u8], salt: [u8; 40], s: &[u8], h: &[i64]) -> Result<(), String> {
    let pk = PublicKey::<N> { h: Polynomial::new(h.iter().map(|v| Felt::new(*v as i16)).collect()) };
    let sig = Signature::<N> { r: salt, s: s.to_vec() };
    let expect = refspec::verify(m, &salt, s, h, N);
    let m2 = m.to_vec();
    let got = std::panic::catch_unwind(move || verify::<N>(&m2, &sig, &pk));
    match got {
        Ok(g) if g == expect => Ok(()),
        Ok(g) => Err(format!("verify returned {} but Algorithm 16 says {}", g, expect)),
        Err(_) => Err("verify panicked".to_string()),
    }
}

/// Directed witness search for `verify` (bounded; witness production only): crafted public keys
/// h = (c - s1) * s2^-1 for s2 = (v, 0, .., 0), with s1 of chosen norm.
pub(crate) fn search_verify<const N: usize>(seed: u64) -> Option<String> {
    let bound: i64 = if N == 512 { 34034726 } else { 70265242 };
    let l = if N == 512 { 625 } else { 1239 };
    let vs: [i16; 12] = [1, -1, 130, -130, 6144, -6144, 6145, -6145, 12159, -12159, 5000, -7000];
    for (vi, v) in vs.iter().enumerate() {
        // around the bound; and (for v = +-1) far above it, where a narrower accumulator would wrap:
        // total norm 2^32, 2^32 + 5, 2^31 + 5, 2^33 + 7 (all must be rejected)
        let far: [i64; 4] = [(1i64 << 32) - bound, (1i64 << 32) + 5 - bound, (1i64 << 31) + 5 - bound, (1i64 << 33) + 7 - bound];
        let mut deltas: Vec<i64> = vec![-1i64, 0, 1, -(bound / 2)];
        if vi < 2 { deltas.extend(far.iter().filter(|d| **d > 0 && **d + bound <= (N as i64) * 6144 * 6144)); }
        for delta in deltas {
            let mut s2 = vec![0i16; N];
            s2[0] = *v;
            let own = (*v as i64) * (*v as i64);
            // s1 with squared norm bound + delta - (centred v)^2-ish: choose target >= 0
            let mut target = bound + delta - own;
            if target < 0 {
                target = 0;
            }
            let mut s1 = vec![0i64; N];
            let mut k = 0;
            let mut t = target;
            while t > 0 && k < N {
                let mut r = (t as f64).sqrt() as i64;
                while r * r > t { r -= 1; }
                while (r + 1) * (r + 1) <= t { r += 1; }
                if r > 6144 { r = 6144; }
                s1[k] = r;
                t -= r * r;
                k += 1;
            }
            let mut m = b"witness search ".to_vec();
            m.push(vi as u8);
            m.extend_from_slice(&seed.to_le_bytes());
            let salt = [(seed as u8) ^ 0x5a; 40];
            let mut inp = salt.to_vec();
            inp.extend_from_slice(&m);
            let c = refspec::hash_to_point(&inp, N);
            // h = (c - s1) * v^-1  (s2 = v * X^0)
            let vq = (*v as i64).rem_euclid(refspec::Q);
            let mut inv = 1i64;
            let mut e = refspec::Q - 2;
            let mut b = vq;
            while e > 0 {
                if e & 1 == 1 { inv = inv * b % refspec::Q; }
                b = b * b % refspec::Q;
                e >>= 1;
            }
            let h: Vec<i64> = (0..N).map(|i| ((c[i] - s1[i]).rem_euclid(refspec::Q) * inv) % refspec::Q).collect();
            let body = match refspec::compress(&s2, l) { Some(b) => b, None => continue };
            if let Err(why) = verify_case::<N>(&m, salt, &body, &h) {
                let hb: Vec<u8> = h.iter().flat_map(|x| (*x as u16).to_be_bytes()).collect();
                return Some(format!("{} | argv=verify-case,{},{},{},{},{}", why, N, hexs(&m), hexs(&salt), hexs(&body), hexs(&hb)));
            }
        }
    }
    None
}

/// one decompress / compress case on the real code against the reference
pub(crate) fn codec_case(x: &[u8], n: usize) -> Result<(), String> {
    let expect = refspec::decompress(x, n);
    let x2 = x.to_vec();
    let got = std::panic::catch_unwind(move || crate::encoding::decompress(&x2, n));
    match got {
        Err(_) => Err("decompress panicked".to_string()),
        Ok(g) => {
            let g32: Option<Vec<i32>> = g.map(|v| v.iter().map(|c| *c as i32).collect());
            if g32 != expect {
                Err(format!("decompress returned {:?} but Algorithm 18 gives {:?}", g32.as_ref().map(|v| &v[..v.len().min(4)]), expect.as_ref().map(|v| &v[..v.len().min(4)])))
            } else { Ok(()) }
        }
    }
}
pub(crate) fn compress_case(v: &[i16], l: usize) -> Result<(), String> {
    let expect = refspec::compress(v, l);
    let v2 = v.to_vec();
    let got = std::panic::catch_unwind(move || crate::encoding::compress(&v2, l));
    match got {
        Err(_) => Err("compress panicked".to_string()),
        Ok(g) => if g != expect { Err(format!("compress returned {:?} but Algorithm 17 gives {:?}", g.map(|b| hexs(&b)), expect.map(|b| hexs(&b)))) } else { Ok(()) },
    }
}

/// Directed witness search for the codec (bounded; witness production only).
pub(crate) fn search_codec(seed: u64) -> Option<String> {
    let mut st = seed.wrapping_mul(6364136223846793005).wrapping_add(1442695040888963407);
    let mut rnd = move || { st ^= st << 13; st ^= st >> 7; st ^= st << 17; st };
    let dec = |x: &[u8], n: usize| -> Option<String> {
        codec_case(x, n).err().map(|why| format!("{} | argv=decompress-case,{},{}", why, hexs(x), n))
    };
    // 1. exhaustive: all strings of 1 and 2 bytes, n = 1, 2
    for n in 1..=2usize {
        for a in 0..=255u8 {
            if let Some(w) = dec(&[a], n) { return Some(w); }
            for b in 0..=255u8 {
                if let Some(w) = dec(&[a, b], n) { return Some(w); }
            }
        }
    }
    // 2. structured: valid encodings of vectors with boundary magnitudes, then perturbed
    let mags: [i16; 14] = [0, 1, -1, 127, -127, 128, -128, 12159, -12159, 12032, 255, -256, 6144, -6145];
    for round in 0..60 {
        let n = 1 + (rnd() % 5) as usize;
        let v: Vec<i16> = (0..n).map(|_| mags[(rnd() % 14) as usize]).collect();
        let bits: usize = v.iter().map(|c| 9 + ((*c as i32).unsigned_abs() >> 7) as usize).sum();
        for extra in [0usize, 1, 2, 7, 8, 9, 13, 21] {
            let l = (bits + 7) / 8 + extra;
            if let Err(why) = compress_case(&v, l) {
                let vs: Vec<String> = v.iter().map(|c| c.to_string()).collect();
                return Some(format!("{} | argv=compress-case,{},{}", why, vs.join(";"), l));
            }
            if l > 0 { if let Err(why) = compress_case(&v, l - 1) {
                let vs: Vec<String> = v.iter().map(|c| c.to_string()).collect();
                return Some(format!("{} | argv=compress-case,{},{}", why, vs.join(";"), l - 1));
            } }
            let x = match refspec::compress(&v, l) { Some(x) => x, None => continue };
            if let Some(w) = dec(&x, n) { return Some(w); }
            if n > 1 { if let Some(w) = dec(&x, n - 1) { return Some(w); } }
            if let Some(w) = dec(&x, n + 1) { return Some(w); }
            // every single padding bit set
            for p in bits..8 * l {
                let mut y = x.clone();
                y[p / 8] |= 1 << (7 - p % 8);
                if let Some(w) = dec(&y, n) { return Some(w); }
            }
            // every single bit flipped (small cases only)
            if round < 12 {
                for p in 0..bits.min(8 * l) {
                    let mut y = x.clone();
                    y[p / 8] ^= 1 << (7 - p % 8);
                    if let Some(w) = dec(&y, n) { return Some(w); }
                }
            }
            // truncations
            for cut in 1..=2usize { if l > cut { if let Some(w) = dec(&x[..l - cut], n) { return Some(w); } } }
        }
    }
    // 3. long unary runs for the last and for a non-last coefficient
    for run in [93usize, 94, 95, 96, 255, 256, 511, 512] {
        for tail in [false, true] {
            let mut bitsv: Vec<bool> = vec![false, false, false, false, false, true, false, true]; // +5
            bitsv.extend(std::iter::repeat(false).take(run));
            bitsv.push(true);
            if tail { bitsv.extend([false, false, false, false, false, false, false, true, true]); } // a second coefficient 1
            let l = (bitsv.len() + 7) / 8 + 1;
            let mut x = vec![0u8; l];
            for (p, b) in bitsv.iter().enumerate() { if *b { x[p / 8] |= 1 << (7 - p % 8); } }
            if let Some(w) = dec(&x, if tail { 2 } else { 1 }) { return Some(w); }
        }
    }
    // 4. a non-last coefficient starting 9, 10 .. 17 bits before the end
    for l in 2..=6usize {
        for back in 9..=17usize {
            if 8 * l < back + 9 { continue; }
            let first = 8 * l - back; // bits used by coefficient 0: 9 + k
            if first < 9 || first - 9 >= 95 { continue; }
            let mut bitsv: Vec<bool> = vec![false; 8];
            bitsv[7] = true;
            bitsv.extend(std::iter::repeat(false).take(first - 9));
            bitsv.push(true);
            for fill in [0u16, 0x1ff, 0x0ff, 0x100, 0x001] {
                let mut b2 = bitsv.clone();
                for t in 0..back { b2.push(t < 9 && (fill >> (8 - t)) & 1 == 1); }
                let mut x = vec![0u8; l];
                for (p, b) in b2.iter().enumerate() { if *b { x[p / 8] |= 1 << (7 - p % 8); } }
                for n in 2..=3usize { if let Some(w) = dec(&x, n) { return Some(w); } }
            }
        }
    }
    None
}

/// Directed witness search for the Felt NTT (bounded; witness production only): for every power
/// of two n <= 1024, round trip and product against the schoolbook negacyclic product.
pub(crate) fn ntt_case(a: &[i64], b: &[i64]) -> Result<(), String> {
    use crate::fast_fft::FastFft;
    let n = a.len();
    let pa = Polynomial::new(a.iter().map(|v| Felt::new(*v as i16)).collect::<Vec<Felt>>());
    let pb = Polynomial::new(b.iter().map(|v| Felt::new(*v as i16)).collect::<Vec<Felt>>());
    let (a2, b2) = (a.to_vec(), b.to_vec());
    let r = std::panic::catch_unwind(move || {
        let fa = pa.fft();
        let fb = pb.fft();
        let back = fa.ifft();
        let prod = fa.hadamard_mul(&fb).ifft();
        (back.coefficients.iter().map(|f| f.value() as i64).collect::<Vec<i64>>(),
         prod.coefficients.iter().map(|f| f.value() as i64).collect::<Vec<i64>>())
    });
    let (back, prod) = match r { Ok(x) => x, Err(_) => return Err("the transform panicked".into()) };
    if back != a2 { return Err(format!("intt(ntt(a)) != a at n = {}", n)); }
    let q = refspec::Q;
    for k in 0..n {
        let mut acc = 0i64;
        for i in 0..n {
            let (j, sign) = if k >= i { (k - i, 1) } else { (k + n - i, -1) };
            acc = (acc + sign * a2[i] * b2[j]).rem_euclid(q);
        }
        if prod[k] != acc { return Err(format!("intt(ntt(a).ntt(b))[{}] = {} but a*b mod (X^n+1, q) gives {} at n = {}", k, prod[k], acc, n)); }
    }
    Ok(())
}
/// the vector whose transform is `big` (evaluation order of the in-place transform: the roots
/// +-T[n/2 + i/2], T = the forward twiddle table, proved by U-TAB), by O(n^2) interpolation
fn ntt_preimage(big: &[i64]) -> Vec<i64> {
    let n = big.len();
    let q = refspec::Q;
    let pw = |mut b: i64, mut e: i64| { let mut r = 1i64; b = b.rem_euclid(q); while e > 0 { if e & 1 == 1 { r = r * b % q; } b = b * b % q; e >>= 1; } r };
    let roots: Vec<i64> = (0..n).map(|i| {
        if n == 1 { q - 1 } else {
            let t = crate::fast_fft::verif::tab_value(n / 2 + i / 2);
            if i % 2 == 0 { t.rem_euclid(q) } else { (-t).rem_euclid(q) }
        }
    }).collect();
    let ninv = pw(n as i64, q - 2);
    (0..n).map(|j| {
        let mut acc = 0i64;
        for i in 0..n { acc = (acc + big[i] * pw(pw(roots[i], q - 2), j as i64)) % q; }
        acc * ninv % q
    }).collect()
}
pub(crate) fn search_ntt(seed: u64) -> Option<String> {
    let mut st = seed.wrapping_mul(6364136223846793005).wrapping_add(1442695040888963407) | 1;
    let mut rnd = move || { st ^= st << 13; st ^= st >> 7; st ^= st << 17; st };
    let enc = |v: &Vec<i64>| v.iter().map(|x| x.to_string()).collect::<Vec<_>>().join(";");
    // vectors that are extreme in the transform domain (long runs of q - 1 next to runs of 0): what an
    // implementation with delayed reductions would overflow on
    for n in [32usize, 64, 128, 256, 512, 1024] {
        for (run, phase) in [(n / 8, 0usize), (n / 8, 1), (n / 4, 0), (n / 2, 0), (n, 0), (16, 0), (16, 1)] {
            let big: Vec<i64> = (0..n).map(|i| if (i / run.max(1) + phase) % 2 == 0 { 12288 } else { 0 }).collect();
            let a = ntt_preimage(&big);
            let mut one = vec![0i64; n]; one[0] = 1;
            if let Err(why) = ntt_case(&a, &one) { return Some(format!("{} | argv=ntt-case,{},{}", why, enc(&a), enc(&one))); }
            if n >= 512 { break; }
        }
    }
    let mut n = 1usize;
    while n <= 1024 {
        for round in 0..4 {
            let a: Vec<i64> = (0..n).map(|i| match round { 0 => 12288, 1 => (i as i64 * 7 + 1) % 12289, 2 => if i == n - 1 { 1 } else { 0 }, _ => (rnd() % 12289) as i64 }).collect();
            let b: Vec<i64> = (0..n).map(|i| match round { 0 => 12288, 1 => (i as i64 * 13 + 5) % 12289, 2 => if i == 1 % n { 12288 } else { 0 }, _ => (rnd() % 12289) as i64 }).collect();
            if n > 256 && round == 1 { continue; }
            if let Err(why) = ntt_case(&a, &b) {
                let enc = |v: &Vec<i64>| v.iter().map(|x| x.to_string()).collect::<Vec<_>>().join(";");
                return Some(format!("{} | argv=ntt-case,{},{}", why, enc(&a), enc(&b)));
            }
        }
        n *= 2;
    }
    None
}

/// Directed witness search for hash_to_point (bounded; witness production only).
pub(crate) fn h2p_case(input: &[u8], n: usize) -> Result<(), String> {
    let got: Vec<i64> = crate::polynomial::hash_to_point(input, n).coefficients.iter().map(|c| c.value() as i64).collect();
    let want = refspec::hash_to_point(input, n);
    if got.len() != want.len() { return Err(format!("hash_to_point returned {} coefficients for n = {}", got.len(), n)); }
    for i in 0..n {
        if got[i] != want[i] { return Err(format!("hash_to_point(.., {})[{}] = {} but Algorithm 3 gives {}", n, i, got[i], want[i])); }
    }
    Ok(())
}
pub(crate) fn search_h2p(seed: u64) -> Option<String> {
    let mut fixed: Vec<Vec<u8>> = vec![vec![], vec![0], vec![0xff; 41], (0..=255u8).collect()];
    for i in 0..60000u32 { fixed.push(format!("vx-h2p-{}-{}", seed, i).into_bytes()); }
    for inp in fixed.iter() {
        for n in [512usize, 1024] {
            if let Err(why) = h2p_case(inp, n) { return Some(format!("{} | argv=h2p-case,{},{}", why, n, hexs(inp))); }
        }
    }
    for inp in fixed.iter().take(300) {
        for n in [1usize, 2, 3, 8, 64, 100, 256, 2048] {
            if let Err(why) = h2p_case(inp, n) { return Some(format!("{} | argv=h2p-case,{},{}", why, n, hexs(inp))); }
        }
    }
    None
}

/// Directed witness search for sign (bounded; witness production only): a handful of honest
/// signatures under one key, on two threads; every one must verify and carry its own salt.
pub(crate) fn sign_case(msgs: &[Vec<u8>]) -> Result<(), String> {
    let (sk, pk) = keygen::<512>([7u8; 32]);
    let mut sigs: Vec<(Vec<u8>, Signature<512>)> = Vec::new();
    for m in msgs { sigs.push((m.clone(), sign::<512>(m, &sk))); sigs.push((m.clone(), sign::<512>(m, &sk))); }
    let other: Vec<(Vec<u8>, Signature<512>)> = std::thread::scope(|sc| {
        sc.spawn(|| msgs.iter().map(|m| (m.clone(), sign::<512>(m, &sk))).collect::<Vec<_>>()).join().unwrap()
    });
    sigs.extend(other);
    for (m, sg) in sigs.iter() {
        if !verify::<512>(m, sg, &pk) { return Err(format!("[only:C01,C05] an honest signature of message {} is rejected by verify", hexs(m))); }
        let b = sg.to_bytes();
        if b.len() != 666 { return Err(format!("[only:C01,C05] signature encodes to {} bytes", b.len())); }
        if b[1..41] != sg.r[..] { return Err("[only:C08,C05] bytes 1..41 of the encoded signature are not its salt".into()); }
    }
    for i in 0..sigs.len() {
        for j in 0..i {
            if sigs[i].1.r == sigs[j].1.r { return Err(format!("[only:C08] two of {} sign calls returned the same salt {}", sigs.len(), hexs(&sigs[i].1.r))); }
        }
    }
    for pos in 0..40 {
        if sigs.iter().all(|(_, sg)| sg.r[pos] == sigs[0].1.r[pos]) { return Err(format!("[only:C08] salt byte {} is the same in all {} signatures", pos, sigs.len())); }
    }
    Ok(())
}
pub(crate) fn search_sign(_seed: u64) -> Option<String> {
    let msgs: Vec<Vec<u8>> = vec![vec![], b"vx".to_vec(), vec![0xa5; 200], b"vx".to_vec()];
    match sign_case(&msgs) {
        Ok(()) => None,
        Err(why) => Some(format!("{} | argv=sign-case,{}", why, msgs.iter().map(|m| format!("x{}", hexs(m))).collect::<Vec<_>>().join(";"))),
    }
}

/// Directed witness search for key generation and the key codecs (bounded; witness production only).
pub(crate) fn keygen_case<const N: usize>(seed: [u8; 32]) -> Result<(), String> {
    use crate::ffsampling::LdlTree;
    let (sk, pk) = keygen::<N>(seed);
    let q = 12289i64;
    let g: Vec<i64> = sk.b0[0].coefficients.iter().map(|&c| c as i64).collect();
    let f: Vec<i64> = sk.b0[1].coefficients.iter().map(|&c| -(c as i64)).collect();
    let cg: Vec<i64> = sk.b0[2].coefficients.iter().map(|&c| c as i64).collect();
    let cf: Vec<i64> = sk.b0[3].coefficients.iter().map(|&c| -(c as i64)).collect();
    let h: Vec<i64> = pk.h.coefficients.iter().map(|c| c.value() as i64).collect();
    if f.len() != N || g.len() != N || cf.len() != N || cg.len() != N || h.len() != N { return Err("[only:C04] a key polynomial does not have N coefficients".into()); }
    let mul = |a: &Vec<i64>, b: &Vec<i64>| -> Vec<i64> {
        let mut out = vec![0i64; N];
        for i in 0..N { for j in 0..N { if i + j < N { out[i + j] += a[i] * b[j]; } else { out[i + j - N] -= a[i] * b[j]; } } }
        out
    };
    let fg = mul(&f, &cg); let gf = mul(&g, &cf);
    for k in 0..N {
        let want = if k == 0 { q } else { 0 };
        if fg[k] - gf[k] != want { return Err(format!("[only:C04] (f*G - g*F)[{}] = {} over Z[X]/(X^n+1), expected {}", k, fg[k] - gf[k], want)); }
    }
    let hf = mul(&h, &f);
    for k in 0..N {
        if (hf[k] - g[k]).rem_euclid(q) != 0 { return Err(format!("[only:C04] (h*f - g)[{}] = {} is not 0 modulo q", k, (hf[k] - g[k]).rem_euclid(q))); }
    }
    let sigmin = if N == 512 { 1.2778336969128337f64 } else { 1.298280334344292f64 };
    fn leaves(t: &LdlTree, out: &mut Vec<f64>) {
        match t { LdlTree::Branch(_, l, r) => { leaves(l, out); leaves(r, out); } LdlTree::Leaf(v) => out.push(v[0].re) }
    }
    let mut lv = Vec::new();
    leaves(&sk.tree, &mut lv);
    if lv.len() != N { return Err(format!("[only:C04] the signing tree has {} leaves, expected {}", lv.len(), N)); }
    for (i, &l) in lv.iter().enumerate() {
        if !(l >= sigmin && l <= 1.8205) { return Err(format!("[only:C04] tree leaf {} = {} lies outside [sigma_min, sigma_max] = [{}, 1.8205]", i, l, sigmin)); }
    }
    let skb = sk.to_bytes(); let pkb = pk.to_bytes();
    let (skl, pkl) = if N == 512 { (1281, 897) } else { (2305, 1793) };
    if skb.len() != skl || pkb.len() != pkl { return Err(format!("[only:C05] key encodings have {} / {} bytes, expected {} / {}", skb.len(), pkb.len(), skl, pkl)); }
    match SecretKey::<N>::from_bytes(&skb) { Ok(sk2) => if sk2 != sk { return Err("[only:C05] from_bytes(to_bytes(sk)) != sk".into()); } else if sk2.to_bytes() != skb { return Err("[only:C05,C06] secret key re-encoding differs".into()); }, Err(e) => return Err(format!("[only:C05] from_bytes(to_bytes(sk)) fails: {:?}", e)) }
    match PublicKey::<N>::from_bytes(&pkb) { Ok(pk2) => if pk2 != pk { return Err("[only:C05] from_bytes(to_bytes(pk)) != pk".into()); }, Err(e) => return Err(format!("[only:C05] from_bytes(to_bytes(pk)) fails: {:?}", e)) }
    Ok(())
}
pub(crate) fn search_keygen(_seed: u64) -> Option<String> {
    let mut seeds: Vec<[u8; 32]> = vec![[0u8; 32], [1u8; 32], [2u8; 32]];
    // seeds whose first surviving candidate has a coefficient of F beyond 8 bits on the tree as found (F8),
    // or (73386) one equal to the excluded minimum -128, or (5851) a candidate whose Gram-Schmidt norm lies
    // between 1.17^2 q = 16822.41 and 16823
    for ctr in [785u64, 2261, 2907, 1052, 73386, 5851] { let mut s = [0u8; 32]; s[..8].copy_from_slice(&ctr.to_le_bytes()); seeds.push(s); }
    for s in seeds {
        let r = std::panic::catch_unwind(|| keygen_case::<512>(s));
        if let Ok(Err(why)) = r { return Some(format!("{} | argv=keygen-case,512,{}", why, hexs(&s))); }
    }
    let r = std::panic::catch_unwind(|| keygen_case::<1024>([0u8; 32]));
    if let Ok(Err(why)) = r { return Some(format!("{} | argv=keygen-case,1024,{}", why, hexs(&[0u8; 32]))); }
    None
}

/// strictness of the secret-key decoder on one string
pub(crate) fn sk_str_case<const N: usize>(b: &[u8], must_reject: bool) -> Result<(), String> {
    match SecretKey::<N>::from_bytes(b) {
        Ok(sk) => {
            if must_reject { return Err(format!("[only:C06] SecretKey::from_bytes accepts a string of {} bytes that the format excludes (wrong length / header / reserved field value)", b.len())); }
            if sk.to_bytes() != b { return Err("[only:C06] SecretKey::from_bytes accepts a string that is not the encoding of the decoded key".into()); }
            Ok(())
        }
        Err(_) => Ok(()),
    }
}
pub(crate) fn search_sk(seed: u64) -> Option<String> {
    let mut st = seed.wrapping_mul(6364136223846793005).wrapping_add(1442695040888963407) | 1;
    let mut rnd = move || { st ^= st << 13; st ^= st >> 7; st ^= st << 17; st };
    let (sk, _) = keygen::<512>([0u8; 32]);
    let base = sk.to_bytes();
    let mut cands: Vec<(Vec<u8>, bool)> = vec![(base.clone(), false), (vec![], true), (vec![0x59], true), (base[..base.len() - 1].to_vec(), true)];
    { let mut x = base.clone(); x.push(0); cands.push((x, true)); }
    for hb in 0..8 { let mut x = base.clone(); x[0] ^= 1 << hb; cands.push((x, true)); }
    for hd in [0x5au8, 0x58, 0x50, 0x5f, 0x09, 0x0a, 0xa9] { let mut x = base.clone(); x[0] = hd; cands.push((x, true)); }
    // reserved minimum value 10..0 in a field of f (width 6), g (width 6), F (width 8)
    for (start, w, idx) in [(0usize, 6usize, 0usize), (0, 6, 511), (512 * 6, 6, 3), (2 * 512 * 6, 8, 0), (2 * 512 * 6, 8, 511)] {
        let mut x = base.clone();
        for k in 0..w { let p = 8 + start + idx * w + k; let bit = k == 0; if bit { x[p / 8] |= 1 << (7 - p % 8); } else { x[p / 8] &= !(1 << (7 - p % 8)); } }
        cands.push((x, true));
    }
    for _ in 0..200 { let mut x = base.clone(); let p = 8 + (rnd() as usize) % (8 * (base.len() - 1)); x[p / 8] ^= 1 << (7 - p % 8); cands.push((x, false)); }
    for (c, mr) in cands {
        let r = std::panic::catch_unwind(|| sk_str_case::<512>(&c, mr));
        match r {
            Ok(Err(why)) => return Some(format!("{} | argv=sk-str-case,512,{},{}", why, if mr { 1 } else { 0 }, hexs(&c))),
            Err(_) => return Some(format!("[only:C03] SecretKey::from_bytes panics | argv=sk-str-case,512,{},{}", if mr { 1 } else { 0 }, hexs(&c))),
            _ => {}
        }
    }
    search_keygen(seed)
}

/// Directed witness search for batch inversion (bounded; witness production only)
pub(crate) fn batchinv_case(v: &[i64]) -> Result<(), String> {
    use crate::inverse::Inverse;
    let fv: Vec<Felt> = v.iter().map(|x| Felt::new(*x as i16)).collect();
    let fv2 = fv.clone();
    let got = match std::panic::catch_unwind(move || Felt::batch_inverse_or_zero(&fv2)) { Ok(g) => g, Err(_) => return Err("batch_inverse_or_zero panicked".into()) };
    if got.len() != fv.len() { return Err(format!("batch_inverse_or_zero returned {} values for {} inputs", got.len(), fv.len())); }
    for i in 0..fv.len() {
        let a = fv[i].value() as i64; let r = got[i].value() as i64;
        if !(0..12289).contains(&r) { return Err(format!("entry {}: result {} is not in [0, q)", i, r)); }
        if a == 0 && r != 0 { return Err(format!("entry {}: the inverse-or-zero of 0 must be 0, got {}", i, r)); }
        if a != 0 && (a * r) % 12289 != 1 { return Err(format!("entry {}: {} * {} != 1 mod q", i, a, r)); }
    }
    Ok(())
}
pub(crate) fn search_batchinv(seed: u64) -> Option<String> {
    let mut st = seed.wrapping_mul(6364136223846793005).wrapping_add(1442695040888963407) | 1;
    let mut rnd = move || { st ^= st << 13; st ^= st >> 7; st ^= st << 17; st };
    let mut cands: Vec<Vec<i64>> = vec![vec![], vec![0], vec![1], vec![12288], vec![3, 0], vec![0, 3], vec![0, 0, 5], vec![5, 0, 0, 7, 0], vec![0; 9], (1..40).collect()];
    for k in 0..60 { let len = 1 + (rnd() % 70) as usize; cands.push((0..len).map(|_| if rnd() % 4 == 0 { 0 } else { (rnd() % 12289) as i64 }).collect()); let _ = k; }
    for c in cands {
        if let Err(why) = batchinv_case(&c) { return Some(format!("{} | argv=batchinv-case,{}", why, c.iter().map(|x| x.to_string()).collect::<Vec<_>>().join(";"))); }
    }
    None
}

/// the variant's parameter set (for hooks in sibling modules)
pub(crate) fn params_of(n: usize) -> FalconParameters { FalconVariant::from_n(n).parameters() }

/// Directed witness search for the public-key codec (bounded; witness production only).
pub(crate) fn pk_case<const N: usize>(b: &[u8]) -> Result<(), String> {
    // decode: accepted strings must be canonical and carry only fields below q
    let b2 = b.to_vec();
    let r = std::panic::catch_unwind(move || PublicKey::<N>::from_bytes(&b2).map(|k| k.to_bytes()));
    let expect_ok = {
        let n = N; let len = 1 + 14 * n / 8;
        b.len() == len && b[0] as usize == (if n == 512 { 9 } else { 10 }) && {
            let mut ok = true;
            for i in 0..n {
                let mut v = 0u32;
                for k in 0..14 { let p = 8 + 14 * i + k; v = (v << 1) | ((b[p / 8] >> (7 - p % 8)) & 1) as u32; }
                if v >= 12289 { ok = false; }
            }
            ok
        }
    };
    match r {
        Err(_) => Err("PublicKey::from_bytes panicked".into()),
        Ok(Ok(back)) => if !expect_ok { Err("accepted a string that is not a canonical public-key encoding".into()) }
                        else if back != b { Err("re-encoding the accepted key does not reproduce the input".into()) } else { Ok(()) },
        Ok(Err(e)) => if expect_ok { Err(format!("rejected a canonical public-key encoding: {:?}", e)) } else { Ok(()) },
    }
}
pub(crate) fn pk_obj_case<const N: usize>(h: &[i64]) -> Result<(), String> {
    let hv: Vec<Felt> = h.iter().map(|v| Felt::new(*v as i16)).collect();
    let pk = PublicKey::<N> { h: Polynomial::new(hv.clone()) };
    let r = std::panic::catch_unwind(move || { let b = pk.to_bytes(); (b.clone(), PublicKey::<N>::from_bytes(&b)) });
    match r {
        Err(_) => Err("PublicKey::to_bytes / from_bytes panicked".into()),
        Ok((b, back)) => {
            if b.len() != 1 + 14 * N / 8 { return Err(format!("encoded size {} is not {}", b.len(), 1 + 14 * N / 8)); }
            match back { Ok(k) => if k.h.coefficients != hv { Err("decoding the encoding gives a different key".into()) } else { Ok(()) },
                         Err(e) => Err(format!("decoding the encoding of a public key failed: {:?}", e)) }
        }
    }
}
pub(crate) fn search_pk(seed: u64) -> Option<String> {
    let mut st = seed.wrapping_mul(6364136223846793005).wrapping_add(1442695040888963407) | 1;
    let mut rnd = move || { st ^= st << 13; st ^= st >> 7; st ^= st << 17; st };
    fn go<const N: usize>(rnd: &mut dyn FnMut() -> u64) -> Option<String> {
        let enc = |v: &Vec<i64>| v.iter().map(|x| x.to_string()).collect::<Vec<_>>().join(";");
        // objects: special coefficient patterns
        for pat in 0..8 {
            let h: Vec<i64> = (0..N).map(|i| match pat {
                0 => 0, 1 => 12288, 2 => if i == N - 1 { 0 } else { 1 + (i as i64 % 12288) }, 3 => if i == 0 { 0 } else { 12288 },
                4 => if i == N - 1 { 12288 } else { 0 }, 5 => 8192, 6 => (i as i64 * 24 + 1) % 12289, _ => (rnd() % 12289) as i64 }).collect();
            if let Err(why) = pk_obj_case::<N>(&h) { return Some(format!("{} | argv=pk-obj-case,{},{}", why, N, enc(&h))); }
        }
        // strings: canonical encoding perturbed (header bits, one field raised to q .. 16383, lengths)
        let len = 1 + 14 * N / 8;
        let mut base = vec![0u8; len];
        base[0] = if N == 512 { 9 } else { 10 };
        let mut cands: Vec<Vec<u8>> = vec![base.clone(), vec![], base[..len - 1].to_vec(), { let mut x = base.clone(); x.push(0); x }];
        for hb in 0..8 { let mut x = base.clone(); x[0] ^= 1 << hb; cands.push(x); }
        for (i, v) in [(0usize, 12289u32), (0, 16383), (N - 1, 12289), (N / 2, 12290), (1, 12288), (N - 1, 12288)] {
            let mut x = base.clone();
            for k in 0..14 { let p = 8 + 14 * i + k; if (v >> (13 - k)) & 1 == 1 { x[p / 8] |= 1 << (7 - p % 8); } }
            cands.push(x);
        }
        for c in cands { if let Err(why) = pk_case::<N>(&c) { return Some(format!("{} | argv=pk-str-case,{},{}", why, N, hexs(&c))); } }
        None
    }
    go::<512>(&mut rnd).or_else(|| go::<1024>(&mut rnd))
}
