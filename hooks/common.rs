// Shared macros for the per-module hook files (textually included at the top of each).
//
// `harnesses!` declares Kani proof harnesses whose bodies draw their inputs through the
// `Draw` trait (crate::verif_api).  Under `cfg(kani)` the draws are `kani::any()`; natively the
// same body is run on the byte vectors of a Kani concrete-playback counterexample (`Conc`), so a
// counterexample is replayed against the real code by the very text that was verified.
#[allow(unused_macros)]
macro_rules! vassume {
    ($c:expr) => {
        #[cfg(kani)]
        kani::assume($c);
        #[cfg(not(kani))]
        if !($c) {
            return;
        }
    };
}
#[allow(unused_macros)]
macro_rules! vcover {
    ($($t:tt)*) => {
        #[cfg(kani)]
        kani::cover!($($t)*);
    };
}
#[allow(unused_macros)]
macro_rules! harnesses {
    ($( $(#[$m:meta])* fn $name:ident($d:ident) $body:block )*) => {
        pub(crate) mod bodies {
            #[allow(unused_imports)]
            use super::*;
            #[allow(unused_imports)]
            use crate::verif_api::Draw;
            $( pub(crate) fn $name<D: Draw>($d: &mut D) $body )*
        }
        #[cfg(kani)]
        mod proofs {
            #[allow(unused_imports)]
            use super::*;
            $(
                #[kani::proof]
                $(#[$m])*
                fn $name() { super::bodies::$name(&mut crate::verif_api::Sym) }
            )*
        }
        /// Run harness `name` natively on concrete playback values; false if unknown here.
        pub(crate) fn replay(name: &str, c: &mut crate::verif_api::Conc) -> bool {
            match name {
                $( stringify!($name) => { bodies::$name(c); true } )*
                _ => false,
            }
        }
        pub(crate) fn harness_names() -> Vec<&'static str> {
            vec![$( stringify!($name) ),*]
        }
    };
}
