"""The rewrite catalogue (DESIGN.md section 3.2).  Nothing else may transform extracted code.

Each rule is a function (sig, body, arg) -> (sig, body, number_of_applications).  A rule that is
named by a contract block but applies zero times makes the unit UNDECIDED (the source changed
shape), never a pass and never an alarm.  Rules with holes carry the sub-expressions of the
original text through verbatim, so an edit inside a hole reaches the verifier.
"""
import re

CATALOGUE = {
    "R0": "name the result: `-> T` becomes `-> (r: T)`; strip visibility / const qualifiers",
    "R1": "instantiate Self / generic parameter at a concrete type; drop trait bounds",
    "R2": "`a |= b` / `a &= b` on bool becomes `a = a || b` / `a = a && b` (b call-free)",
    "R3": "`for _ in R` becomes `for _k in R`",
    "R4": "closed-form iterator chains become explicit loops with accumulators",
    "R4b": "binders introduced by R4 over Copy elements are by-value; leading `*` stripped",
    "R5": "`n.div_mod_floor(&d)` on usize kept, contract supplied by the prelude",
    "R6": "BitVec operations go to the prelude model (`bv[i]` becomes `bv.idx(i)`)",
    "R7": "itertools chunks over a bit iterator become loops over the model's chunking",
    "R8": "`[a, b, c].concat()` becomes prelude concat with `ensures out@ == a@ + b@ + c@`",
    "R9": "`x.try_into().unwrap()` on a slice of known length becomes a prelude helper",
    "R10": "`unreachable!()` / `panic!()` arms kept; Verus must prove them unreachable",
    "R11": "derives, doc comments, allow attributes, visibility dropped",
    "R12": "constant tables imported by contract (entries proved by U-TAB)",
    "R13": "integer literal / cast typing made explicit where Verus cannot infer it",
    "R14": "method-call / operator syntax on foreign or generic types becomes a call of the named (extracted or modelled) function",
    "R15": "a function-local `const X: T = E;` becomes `let X: T = E;`",
    "R16": "a local variable named like a Verus built-in type (`int`, `nat`) is renamed",
    "R17": "the tail expression E of a function becomes `let vx_ret = E; vx_ret`",
    "R18": "`let X = loop { .. break E; .. };` becomes an Option accumulator assigned before a plain `break`",
    "R19": "the intermediate values of a method chain `let X = a.m1(..).m2(&b.m3()).m4();` are bound to fresh names in evaluation order (receiver, then arguments left to right)",
    "R20": "float arithmetic in the named f64 bindings becomes calls on an uninterpreted IEEE-754 algebra, operator by operator (fadd fsub fmul fdiv fneg ffloor fint flit); decimal literals keep their digits",
    "R21": "`x as i16` / `x as i64` on a double becomes a prelude function carrying Rust's cast contract (exact when representable, saturating otherwise)",
    "R22": "in functions whose loops are verified in isolation: a top-level immutable `let N = E;` whose name the contract does not mention, with E a pure expression (identifiers, literals, + - * / % comparisons, casts, `.len()`) over operands that are never assigned, keeps its statement (so its own overflow obligations stay where they are) and has its later uses replaced by `(E)`",
    "D4": "statement slicing: a floating-point / BigInt / unverifiable tail or binding is replaced by a call of an uncontracted (or explicitly assumed-contract) external function of the same free variables",
}


def _sub(pattern, repl, text, flags=re.S):
    return re.subn(pattern, repl, text, flags=flags)


def r_self(sig, body, arg):
    """R1 Self=<Type>: substitute Self and `Self::` paths."""
    ty = arg or "Felt"
    n = 0
    sig, c = _sub(r"\bSelf\b", ty, sig)
    n += c
    body, c = _sub(r"\bSelf::(\w+)\(", r"\1(", body)  # associated fn of the trait -> free fn
    n += c
    body, c = _sub(r"\bSelf(?=\s*\{)", ty.split("<")[0], body)  # struct literal: no generic arguments
    n += c
    body, c = _sub(r"\bSelf\b", ty, body)
    n += c
    return sig, body, n


def r_generic(sig, body, arg):
    """R1 F=<Type>: substitute a generic parameter name by a concrete type."""
    name, _, ty = arg.partition("=")
    n = 0
    sig, c = _sub(r"\b%s\b" % re.escape(name), ty, sig)
    n += c
    body, c = _sub(r"\b%s\b" % re.escape(name), ty, body)
    n += c
    return sig, body, n


def r_bool_assign(sig, body, arg):
    """R2 on a named bool variable: `v |= e;` -> `v = v || (e);` (e must be call-free)."""
    var = arg
    n = 0

    def rep(m):
        nonlocal n
        e = m.group(2)
        if re.search(r"\w\s*\(", e):  # a call inside: refuse
            return m.group(0)
        n += 1
        op = "||" if m.group(1) == "|" else "&&"
        return "%s = %s %s (%s);" % (var, var, op, e.strip())

    body = re.sub(r"\b%s\s*([|&])=\s*([^;]+);" % re.escape(var), rep, body)
    return sig, body, n


def r_for_underscore(sig, body, arg):
    """R3"""
    body, n = _sub(r"\bfor\s+_\s+in\b", "for _k in", body)
    return sig, body, n


def r_bitvec_index(sig, body, arg):
    """R6: `<var>[e]` -> `<var>.idx(e)` for the named BitVec variable."""
    var = arg
    out = []
    i = 0
    n = 0
    pat = re.compile(r"\b%s\[" % re.escape(var))
    while True:
        m = pat.search(body, i)
        if not m:
            out.append(body[i:])
            break
        out.append(body[i:m.start()])
        # find matching ]
        depth = 0
        k = m.end() - 1
        while k < len(body):
            if body[k] == "[":
                depth += 1
            elif body[k] == "]":
                depth -= 1
                if depth == 0:
                    break
            k += 1
        inner = body[m.end():k]
        out.append("%s.idx(%s)" % (var, inner))
        n += 1
        i = k + 1
    return sig, "".join(out), n


def r_strip_qual(sig, body, arg):
    """R0/R11: strip `pub`, `pub(crate)`, `const` before fn (handled on the item prefix)."""
    return sig, body, 1


def r_div_mod_floor(sig, body, arg):
    """R5: `RECV.div_mod_floor(&D)` -> `div_mod_floor(RECV, D)`; RECV is an identifier or a
    parenthesised expression without nested parentheses."""
    body, n = _sub(r"(\b\w+|\([^()]*\))\.div_mod_floor\(&(\w+)\)", r"div_mod_floor(\1, \2)", body)
    return sig, body, n


def r_iter_skip_loop(sig, body, arg):
    """R4/R4b: `for &B in X.iter().skip(E) {` -> `for vx_i in (E)..X.len() { let B = X[vx_i];`"""
    def find_close(s, i):
        depth = 0
        for k in range(i, len(s)):
            if s[k] == "(":
                depth += 1
            elif s[k] == ")":
                depth -= 1
                if depth == 0:
                    return k
        return -1
    n = 0
    pat = re.compile(r"for\s+&?(\w+)\s+in\s+(\w+)\.iter\(\)\.skip\(")
    while True:
        m = pat.search(body)
        if not m:
            break
        o = m.end() - 1
        c = find_close(body, o)
        rest = body[c + 1:]
        mm = re.match(r"\s*\{", rest)
        if c < 0 or not mm:
            break
        e = body[o + 1:c]
        b, xs = m.group(1), m.group(2)
        body = (body[:m.start()] + "for vx_i in (%s)..%s.len() {\n        let %s = %s[vx_i];" % (e, xs, b, xs)
                + rest[mm.end():])
        n += 1
    return sig, body, n


def _strip_deref(text, names):
    """R4b: strip a leading (unary) `*` on exactly the given binder names."""
    n = 0
    for nm in names:
        out = []
        last = 0
        for m in re.finditer(r"\*\s*%s\b" % re.escape(nm), text):
            k = m.start() - 1
            while k >= 0 and text[k] in " \t\n":
                k -= 1
            if k >= 0 and (text[k].isalnum() or text[k] in "_)]"):
                continue  # binary multiplication
            out.append(text[last:m.start()])
            out.append(nm)
            last = m.end()
            n += 1
        out.append(text[last:])
        text = "".join(out)
    return text, n


def _binder_names(pat):
    return [w for w in re.findall(r"[A-Za-z_]\w*", pat) if w not in ("mut", "ref")]


def r_map_collect(sig, body, arg):
    """R4: `let NAME = SRC.iter().map(|B| EXPR).collect_vec();` -> push loop (B by value)."""
    pat = re.compile(r"let\s+(\w+)\s*=\s*(\w+)\s*\.iter\(\)\s*\.map\(\|\s*([^|]+?)\s*\|\s*(.+?)\)\s*\.collect_vec\(\);", re.S)
    n = 0

    def rep(m):
        nonlocal n
        name, src, b, expr = m.groups()
        expr2, _ = _strip_deref(expr, _binder_names(b))
        n += 1
        return ("let mut %s = Vec::new();\n    for vx_i in 0..%s.len() {\n        let %s = %s[vx_i];\n        %s.push(%s);\n    }"
                % (name, src, b, src, name, expr2))
    body = pat.sub(rep, body)
    return sig, body, n


def r_map_sum(sig, body, arg):
    """R4: `let NAME = SRC.iter().map(|PAT| EXPR).sum::<T>();` -> accumulator loop."""
    pat = re.compile(r"let\s+(\w+)\s*=\s*(\w+)\s*\.iter\(\)\s*\.map\(\|\s*([^|]+?)\s*\|\s*(.+?)\)\s*\.sum::<(\w+)>\(\);", re.S)
    n = 0

    def rep(m):
        nonlocal n
        name, src, b, expr, ty = m.groups()
        expr2, _ = _strip_deref(expr, _binder_names(b))
        n += 1
        return ("let mut %s: %s = 0;\n    for vx_i in 0..%s.len() {\n        let %s = %s[vx_i];\n        %s += %s;\n    }"
                % (name, ty, src, b, src, name, expr2))
    body = pat.sub(rep, body)
    return sig, body, n


def r_iter_take_loop(sig, body, arg):
    """R4/R4b: `for PAT in SRC.iter().take(E) {` -> `for vx_i in 0..vx_min(E, SRC.len()) { let PAT = SRC[vx_i];`
    and a leading `*` on PAT's binders is stripped inside that loop body."""
    from . import extract as X
    n = 0
    pat = re.compile(r"for\s+(\([^)]*\)|\w+)\s+in\s+(\w+)\.iter\(\)\.take\(")
    while True:
        m = pat.search(body)
        if not m:
            break
        o = m.end() - 1
        depth, c = 0, -1
        for k in range(o, len(body)):
            if body[k] == "(":
                depth += 1
            elif body[k] == ")":
                depth -= 1
                if depth == 0:
                    c = k
                    break
        mm = re.match(r"\s*\{", body[c + 1:])
        if c < 0 or not mm:
            break
        bo = c + 1 + mm.end() - 1
        bc = X.match_brace(X.mask(body), bo)
        inner, _ = _strip_deref(body[bo + 1:bc], _binder_names(m.group(1)))
        e = body[o + 1:c]
        body = (body[:m.start()] + "for vx_i in 0..vx_min(%s, %s.len()) {\n        let %s = %s[vx_i];" % (e, m.group(2), m.group(1), m.group(2))
                + inner + body[bc:])
        n += 1
    return sig, body, n


def r_last_unwrap(sig, body, arg):
    """R14/R4b: `let PAT = SRC.last().unwrap();` -> `let PAT = SRC[SRC.len() - 1];` (by value), and a
    leading `*` on PAT's binders is stripped in the rest of the enclosing text."""
    pat = re.compile(r"let\s+(\([^)]*\)|\w+)\s*=\s*(\w+)\.last\(\)\.unwrap\(\);")
    m = pat.search(body)
    if not m:
        return sig, body, 0
    rest, _ = _strip_deref(body[m.end():], _binder_names(m.group(1)))
    body = body[:m.start()] + "let %s = %s[%s.len() - 1];" % (m.group(1), m.group(2), m.group(2)) + rest
    return sig, body, 1


def _match_paren(text, o):
    depth = 0
    for k in range(o, len(text)):
        if text[k] in "([{":
            depth += 1
        elif text[k] in ")]}":
            depth -= 1
            if depth == 0:
                return k
    return -1


def _stmt_start(body, pos):
    """start of the statement containing pos: after the previous `;`, `{` or `}` at the same level"""
    k = pos - 1
    depth = 0
    while k >= 0:
        ch = body[k]
        if ch in ")]":
            depth += 1
        elif ch in "([":
            depth -= 1
        elif ch in ";{}" and depth <= 0:
            if ch == "{" and re.match(r"\s*\w+\s*(:(?!:)|,|\})", body[k + 1:]):
                k -= 1  # the brace of a struct literal: the statement started earlier
                continue
            break
        k -= 1
    k += 1
    while k < len(body) and body[k] in " \t\n":
        k += 1
    return k


def _parse_chain(body, it):
    """body[it:] starts with `.iter()`; parse [.cloned()|.copied()] [.zip(R2.iter())] `.map(|P| E)`*
    then the terminal.  Returns (zip_recv or None, closures [(pat, expr)], kind, arg, end) or None."""
    k = it + len(".iter()")
    m = re.match(r"\s*\.(cloned|copied)\(\)", body[k:])
    if m:
        k += m.end()
    skip_e = take_e = None
    while True:
        m = re.match(r"\s*\.(skip|take)\(", body[k:])
        if not m:
            break
        o = k + m.end() - 1
        c = _match_paren(body, o)
        if c < 0:
            return None
        if m.group(1) == "skip" and skip_e is None and take_e is None:
            skip_e = body[o + 1:c]
        elif m.group(1) == "take" and take_e is None:
            take_e = body[o + 1:c]
        else:
            return None
        k = c + 1
    _parse_chain.last_range = (skip_e, take_e)
    zip_recv = None
    m = re.match(r"\s*\.zip\(\s*([\w.\s]+?)\s*\.iter\(\)\s*\)", body[k:])
    if m:
        zip_recv = re.sub(r"\s+", "", m.group(1))
        k += m.end()
    closures = []
    while True:
        m = re.match(r"\s*\.map\(", body[k:])
        if not m:
            break
        o = k + m.end() - 1
        c = _match_paren(body, o)
        if c < 0:
            return None
        inner = body[o + 1:c].strip()
        mm = re.match(r"\|\s*([^|]+?)\s*\|\s*(.*)$", inner, re.S)
        if not mm:
            return None
        closures.append((mm.group(1), mm.group(2).strip()))
        k = c + 1
    m = re.match(r"\s*\.sum::<(\w+)>\(\)", body[k:])
    if m:
        return zip_recv, closures, "sum", m.group(1), k + m.end()
    m = re.match(r"\s*\.collect(?:_vec)?\(\)", body[k:])
    if m:
        return zip_recv, closures, "collect", None, k + m.end()
    return None


def r_hoist_chains(sig, body, arg):
    """R4/R4b: every `RECV.iter().map(|P| E)[.map(|P2| E2)]* .sum::<T>()` or `.collect_vec()` used
    inside a statement is hoisted into an explicit loop placed just before that statement:
        let mut vx_accK: T = 0;  for vx_i in 0..RECV.len() { let P = RECV[vx_i]; let P2 = E; vx_accK += E2; }
    Closure parameters `&x` / `x` over Copy elements are bound by value; a leading `*` on them is
    stripped.  Chains are processed in source order; K counts from 1."""
    n = 0
    pos = 0
    while True:
        it = body.find(".iter()", pos)
        if it < 0:
            break
        # receiver path
        r0 = it
        while r0 > 0:
            ch = body[r0 - 1]
            if ch.isalnum() or ch in "._":
                r0 -= 1
            elif ch in " \t\n":
                # whitespace is part of the path only if a `.` follows it
                k = r0 - 1
                while k > 0 and body[k - 1] in " \t\n":
                    k -= 1
                if body[r0] == "." and k > 0 and (body[k - 1].isalnum() or body[k - 1] == "_"):
                    r0 = k
                else:
                    break
            else:
                break
        recv = re.sub(r"\s+", "", body[r0:it])
        parsed = _parse_chain(body, it)
        if not recv or parsed is None or not parsed[1]:
            pos = it + 1
            continue
        zip_recv, closures, kind, targ, end = parsed
        n += 1
        lines = []
        if zip_recv:
            # first closure takes a pair pattern (A, B)
            pat0 = closures[0][0].strip()
            mm = re.match(r"\(\s*&?\s*(\w+)\s*,\s*&?\s*(\w+)\s*\)$", pat0)
            if not mm:
                pos = it + 1
                n -= 1
                continue
            lines.append("        let %s = %s[vx_i];" % (mm.group(1), recv))
            lines.append("        let %s = %s[vx_i];" % (mm.group(2), zip_recv))
            e0, _ = _strip_deref(closures[0][1], [mm.group(1), mm.group(2)])
            prev_val = e0
            rest = closures[1:]
            bound = "vx_min(%s.len(), %s.len())" % (recv, zip_recv)
            _parse_chain.last_range = (None, None) if getattr(_parse_chain, "last_range", (None, None)) == (None, None) else _parse_chain.last_range
        else:
            prev_val = "%s[vx_i]" % recv
            rest = closures
            bound = "%s.len()" % recv
        skip_e, take_e = getattr(_parse_chain, "last_range", (None, None))
        lo = "0"
        if skip_e is not None:
            lo = "vx_min(%s, %s)" % (skip_e, bound)
        if take_e is not None:
            bound = "vx_min(%s + (%s), %s)" % (lo, take_e, bound) if skip_e is not None else "vx_min(%s, %s)" % (take_e, bound)
        bound = lo + ".." + bound if False else bound
        range_lo = lo
        for idx, (pat, expr) in enumerate(rest):
            p = pat.strip()
            if p.startswith("&"):
                p = p[1:].strip()
            names = _binder_names(p)
            lines.append("        let %s = %s;" % (p, prev_val))
            e2, _ = _strip_deref(expr, names)
            if e2.startswith("(") and _match_paren(e2, 0) == len(e2) - 1:
                e2 = e2[1:-1]
            prev_val = e2
        if kind == "sum":
            acc = "vx_sum%d" % n
            pre = "let mut %s: %s = 0;\n    for vx_i in %s..%s {\n%s\n        %s += %s;\n    }\n    " % (
                acc, targ, range_lo, bound, "\n".join(lines), acc, prev_val)
        else:
            acc = "vx_vec%d" % n
            pre = "let mut %s = Vec::new();\n    for vx_i in %s..%s {\n%s\n        %s.push(%s);\n    }\n    " % (
                acc, range_lo, bound, "\n".join(lines), acc, prev_val)
        st = _stmt_start(body, r0)
        body = body[:st] + pre + body[st:r0] + acc + body[end:]
        pos = st + len(pre)
    return sig, body, n


def r_poly_binop(sig, body, arg):
    """R14: in `let <arg> = A - B;` / `A + B` on Polynomial operands the operator becomes a call of the
    extracted impl: poly_sub(A, B) / poly_add(A, B)."""
    m = re.search(r"let\s+%s\s*=\s*([^;]+);" % re.escape(arg), body)
    if not m:
        return sig, body, 0
    e = m.group(1)
    depth = 0
    for k, ch in enumerate(e):
        if ch in "([{":
            depth += 1
        elif ch in ")]}":
            depth -= 1
        elif depth == 0 and ch in "+-" and k > 0 and e[k - 1] == " " and k + 1 < len(e) and e[k + 1] == " ":
            fn = "poly_sub" if ch == "-" else "poly_add"
            new = "let %s = Polynomial::%s(%s, %s);" % (arg, fn, e[:k].strip(), e[k + 1:].strip())
            return sig, body[:m.start()] + new + body[m.end():], 1
    return sig, body, 0


def r_iter_mut_opassign(sig, body, arg):
    """R4 + operator-assign desugaring: `for X in A.iter_mut() { ... *X ... }` ->
    `let vx_len = A.len(); for vx_i in 0..vx_len { ... A[vx_i] ... }`, and inside it
    `A[vx_i] OP= E;` -> `A[vx_i] = A[vx_i] OP E;` (OpAssign == Op is discharged by U-FELT)."""
    from . import extract as X
    pat = re.compile(r"for\s+(\w+)\s+in\s+(\w+)\.iter_mut\(\)\s*\{")
    n = 0
    while True:
        m = pat.search(body)
        if not m:
            break
        bo = m.end() - 1
        bc = X.match_brace(X.mask(body), bo)
        x, a = m.group(1), m.group(2)
        inner = body[bo + 1:bc]
        inner = re.sub(r"\*\s*%s\b" % re.escape(x), "%s[vx_i]" % a, inner)
        inner = re.sub(r"(%s\[vx_i\])\s*([*+\-])=\s*([^;]+);" % re.escape(a), r"\1 = \1 \2 \3;", inner)
        body = body[:m.start()] + "let vx_len = %s.len();\n    for vx_i in 0..vx_len {" % a + inner + body[bc:]
        n += 1
    return sig, body, n


def r_into_iter_enumerate(sig, body, arg):
    """R4: `for (I, C) in X.into_iter().enumerate() {` -> `for I in 0..X.len() { let C = X[I];`
    (also `.iter().enumerate()` with C by value, a leading `*C` / `C.clone()` becoming `C`)."""
    pat = re.compile(r"for\s+\(\s*(\w+)\s*,\s*(\w+)\s*\)\s+in\s+([\w.]+?)\.(?:into_iter|iter)\(\)\.enumerate\(\)\s*\{")
    body, n = pat.subn(lambda m: "for %s in 0..%s.len() {\n                let %s = %s[%s];" % (
        m.group(1), m.group(3), m.group(2), m.group(3), m.group(1)), body)
    return sig, body, n


def r_index_opassign(sig, body, arg):
    """operator-assign desugaring on an indexed element: `V[I] OP= E;` -> `V[I] = V[I] OP E;`
    (OpAssign == Op for Felt is discharged by U-FELT)."""
    body, n = _sub(r"(\b\w+\[\w+\])\s*([+\-*])=\s*([^;]+);", r"\1 = \1 \2 \3;", body)
    return sig, body, n


def r_self_output(sig, body, arg):
    """R1: `Self::Output` -> the concrete output type name."""
    ty = arg or "Polynomial"
    sig, a = _sub(r"\bSelf::Output\b", ty, sig)
    base = ty.split("<")[0]
    body, b0 = _sub(r"\bSelf::Output(?=\s*\{)", base, body)  # struct literal: no generic arguments
    body, b = _sub(r"\bSelf::Output\b", ty, body)
    b += b0
    return sig, body, a + b


def r_poly_tail_expr(sig, body, arg):
    """R14: a function body that is a single operator expression over Polynomial operands
    (`self + (-rhs)`, `self + rhs`, `-self` ...) becomes calls of the extracted impls:
    poly_add / poly_sub / poly_neg."""
    inner = body.strip()
    if not (inner.startswith("{") and inner.endswith("}")):
        return sig, body, 0
    e = inner[1:-1].strip()

    def strip_parens(x):
        x = x.strip()
        while x.startswith("(") and _match_paren(x, 0) == len(x) - 1:
            x = x[1:-1].strip()
        return x

    def conv(x):
        x = strip_parens(x)
        depth = 0
        for k in range(len(x) - 1, 0, -1):
            ch = x[k]
            if ch in ")]}":
                depth += 1
            elif ch in "([{":
                depth -= 1
            elif depth == 0 and ch in "+-" and x[k - 1] == " " and k + 1 < len(x) and x[k + 1] == " ":
                fn = "poly_add" if ch == "+" else "poly_sub"
                return "Polynomial::%s(%s, %s)" % (fn, conv(x[:k]), conv(x[k + 1:]))
        if x.startswith("-"):
            return "Polynomial::poly_neg(%s)" % conv(x[1:])
        if not re.match(r"^&?\w+$", x):
            raise ValueError(x)
        return x
    try:
        out = conv(e)
    except ValueError:
        return sig, body, 0
    if out == e:
        return sig, body, 0
    return sig, "{\n    " + out + "\n}", 1


def r_table_refs(sig, body, arg):
    """R12: references to the constant tables / n^-1 constants become calls of the prelude
    functions that carry the table contracts (discharged by U-TAB on the real tables)."""
    n = 0
    body, c = _sub(r"&FELT_BITREVERSED_POWERS_INVERSE_1024\b", "vx_tab_inv()", body); n += c
    body, c = _sub(r"&FELT_BITREVERSED_POWERS_1024\b", "vx_tab_fwd()", body); n += c
    body, c = _sub(r"\bFELT_NINV_(\d+)\b", r"vx_ninv(\1)", body); n += c
    return sig, body, n


def r_trait_fn_calls(sig, body, arg):
    """R1: `Felt::fft(` / `Felt::ifft(` (trait default methods at Self := Felt) -> the extracted
    free functions felt_fft / felt_ifft; `self.clone()` on Polynomial -> vx_clone_poly(self)."""
    n = 0
    body, c = _sub(r"\bFelt::(fft|ifft|batch_inverse_or_zero)\(", r"felt_\1(", body); n += c
    body, c = _sub(r"\bself\.clone\(\)", "vx_clone_poly(self)", body); n += c
    return sig, body, n


def r_chunks_chain(sig, body, arg):
    """R7: `RECV.iter()[.skip(A)][.take(B)].chunks(W).into_iter()(.map(F))* TERMINAL` over a BitVec
    becomes a loop over the model's chunks, hoisted before the enclosing statement:
        let mut vx_cvK = Vec::new();
        for vx_c in 0..RECV.vx_nchunks(A, B, W) { let vx_ch = RECV.vx_chunk(A, B, vx_c, W); ...; push }
    map stages: a closure `|P| BODY` binds P to the previous value and evaluates BODY (block or
    expression); a path `F` is applied as `F(prev)`; `BitVec::from_iter` is the identity on a model
    chunk.  TERMINAL is `.collect_vec()` or `.collect::<Result<Vec<T>, _>>()?` (early `return Err`)."""
    n = 0
    pos = 0
    while True:
        m = re.search(r"\.chunks\(", body[pos:])
        if not m:
            break
        cpos = pos + m.start()
        # walk back to `.iter()` and the receiver
        head = body[:cpos]
        hm = list(re.finditer(r"([\w.]+?)\s*\.iter\(\)((?:\s*\.(?:skip|take)\((?:[^()]|\([^()]*\))*\))*)\s*$", head))
        if not hm:
            pos = cpos + 1
            continue
        h = hm[-1]
        recv = h.group(1)
        r0 = h.start(1)
        skip_e, take_e = "0", "usize::MAX"
        for sm in re.finditer(r"\.(skip|take)\(((?:[^()]|\([^()]*\))*)\)", h.group(2)):
            if sm.group(1) == "skip":
                skip_e = sm.group(2)
            else:
                take_e = sm.group(2)
        o = cpos + len(".chunks")
        c = _match_paren(body, o)
        w = body[o + 1:c]
        k = c + 1
        mm = re.match(r"\s*\.into_iter\(\)", body[k:])
        if not mm:
            pos = cpos + 1
            continue
        k += mm.end()
        stages = []
        while True:
            mm = re.match(r"\s*\.map\(", body[k:])
            if not mm:
                break
            o2 = k + mm.end() - 1
            c2 = _match_paren(body, o2)
            stages.append(body[o2 + 1:c2].strip())
            k = c2 + 1
        mm = re.match(r"\s*\.collect_vec\(\)", body[k:])
        result_mode = False
        if mm:
            k += mm.end()
        else:
            mm = re.match(r"\s*\.collect::<Result<Vec<[^>]*>,\s*_>>\(\)\?", body[k:])
            if not mm:
                pos = cpos + 1
                continue
            result_mode = True
            k += mm.end()
        n += 1
        vec = "vx_cv%d" % n
        lines = ["let mut %s = Vec::new();" % vec,
                 "    let vx_nch%d = %s.vx_nchunks(%s, %s, %s);" % (n, recv, skip_e, take_e, w),
                 "    for vx_c in 0..vx_nch%d {" % n,
                 "        let vx_ch = %s.vx_chunk(%s, %s, vx_c, %s);" % (recv, skip_e, take_e, w)]
        prev = "vx_ch"
        for j, st in enumerate(stages):
            cm = re.match(r"\|\s*([^|]+?)\s*\|\s*(.*)$", st, re.S)
            if cm:
                lines.append("        let %s = %s;" % (cm.group(1), prev))
                lines.append("        let vx_t%d = %s;" % (j, cm.group(2).strip()))
            elif st == "BitVec::from_iter":
                lines.append("        let vx_t%d = %s;" % (j, prev))
            else:
                lines.append("        let vx_t%d = %s(%s);" % (j, st, prev))
            prev = "vx_t%d" % j
        if result_mode:
            lines.append("        match %s {\n            Ok(vx_ok) => { %s.push(vx_ok); }\n            Err(vx_e) => { return Err(vx_e); }\n        }" % (prev, vec))
        else:
            lines.append("        %s.push(%s);" % (vec, prev))
        lines.append("    }\n    ")
        pre = "\n".join(lines)
        st0 = _stmt_start(body, r0)
        body = body[:st0] + pre + body[st0:r0] + vec + body[k:]
        pos = st0 + len(pre)
    return sig, body, n


def r_for_in_bitvec(sig, body, arg):
    """R6: `for B in <arg> {` over a BitVec value -> `for vx_b in 0..<arg>.len() { let B = <arg>.idx(vx_b);`"""
    body, n = _sub(r"for\s+(\w+)\s+in\s+%s\s*\{" % re.escape(arg),
                   r"for vx_b in 0..%s.len() {\n                let \1 = %s.idx(vx_b);" % (arg, arg), body)
    return sig, body, n


def r_rename_local(sig, body, arg):
    """R16: a local variable whose name is a Verus built-in type name (`int`, `nat`) is renamed
    `<name>_` (declaration and every use in the function)."""
    body, n = _sub(r"(?<![\w.:])%s\b(?!\s*\()" % re.escape(arg), arg + "_", body)
    return sig, body, n


def r_rev_range(sig, body, arg):
    """R4 (+R13 when a literal type suffix is given as argument): `for I in (A..B).rev() {` ->
    `for vx_r in A..B { let I = (B) - 1 - (vx_r - (A));`"""
    suf = arg or ""
    body, n = _sub(r"for\s+(\w+)\s+in\s+\((\w+)\.\.([\w.]+(?:\(\))?)\)\.rev\(\)\s*\{",
                   r"for vx_r in \2%s..\3%s {\n                let \1 = \3%s - 1 - (vx_r - \2%s);" % (suf, suf, suf, suf), body)
    return sig, body, n


def r_iter_loop(sig, body, arg):
    """R4/R4b: `for [&]X in RECV.iter() {` over Copy elements -> `for vx_i in 0..RECV.len() { let X = RECV[vx_i];`
    and a leading `*X` inside the loop body becomes `X`."""
    from . import extract as X
    pat = re.compile(r"for\s+&?(\w+)\s+in\s+([\w.]+?)\.iter\(\)\s*\{")
    n = 0
    while True:
        m = pat.search(body)
        if not m:
            break
        bo = m.end() - 1
        bc = X.match_brace(X.mask(body), bo)
        inner, _ = _strip_deref(body[bo + 1:bc], [m.group(1)])
        body = (body[:m.start()] + "for vx_i in 0..%s.len() {\n            let %s = %s[vx_i];" % (m.group(2), m.group(1), m.group(2))
                + inner + body[bc:])
        n += 1
    return sig, body, n


def r_tail_let(sig, body, arg):
    """R17: the function's tail expression `E` (not itself a block expression) becomes
    `let vx_ret = E; vx_ret` so that a proof block can mention the returned value."""
    from . import extract as X
    masked = X.mask(body)
    end = masked.rstrip().rfind("}")
    k = end - 1
    while k > 0 and masked[k] in " \t\n":
        k -= 1
    if masked[k] in "};":
        return sig, body, 0
    depth = 0
    while k > 0:
        ch = masked[k]
        if ch in ")]":
            depth += 1
        elif ch in "([":
            depth -= 1
        elif ch in ";{}" and depth == 0:
            break
        k -= 1
    expr = body[k + 1:end].strip()
    if not expr or expr.startswith("let "):
        return sig, body, 0
    return sig, body[:k + 1] + "\n        let vx_ret = " + expr + ";\n        vx_ret\n    " + body[end:], 1


def r_float_scale63(sig, body, arg):
    """D4: the float-to-integer conversions `f64::floor(A * B) as u64` where one factor is
    `(twoe63 as f64)` become a call of the uninterpreted external function vx_scale63(<other factor>)
    (floating point is outside the verified text)."""
    pat = re.compile(r"f64::floor\(\s*(\w+)\s*\*\s*\(twoe63 as f64\)\s*\)\s*as\s+u64|f64::floor\(\s*\(twoe63 as f64\)\s*\*\s*(\w+)\s*\)\s*as\s+u64")
    body, n = pat.subn(lambda m: "vx_scale63(%s)" % (m.group(1) or m.group(2)), body)
    return sig, body, n


def r_for_in_slice(sig, body, arg):
    """R4/R4b: `for X in <arg> {` over a slice of Copy elements -> index loop, X by value."""
    from . import extract as X
    pat = re.compile(r"for\s+(\w+)\s+in\s+%s\s*\{" % re.escape(arg))
    n = 0
    while True:
        m = pat.search(body)
        if not m:
            break
        bo = m.end() - 1
        bc = X.match_brace(X.mask(body), bo)
        inner, _ = _strip_deref(body[bo + 1:bc], [m.group(1)])
        body = (body[:m.start()] + "for vx_i in 0..%s.len() {\n            let %s = %s[vx_i];" % (arg, m.group(1), arg)
                + inner + body[bc:])
        n += 1
    return sig, body, n


def r_var_opassign(sig, body, arg):
    """operator-assign desugaring on a plain variable: `<arg> OP= E;` -> `<arg> = <arg> OP E;`"""
    body, n = _sub(r"\b%s\s*([+\-*])=\s*([^;]+);" % re.escape(arg), r"%s = %s \1 \2;" % (arg, arg), body)
    return sig, body, n


def r_slice_binding(sig, body, arg):
    """D4: `let NAME = <floating-point / unverifiable expression>;` becomes `let NAME = REPL;` where REPL
    is a call of an external function of the same free variables.  arg = "NAME => REPL"."""
    from . import extract as X
    name, _, repl = arg.partition("=>")
    name, repl = name.strip(), repl.strip()
    m = re.search(r"let\s+(?:mut\s+)?%s\b[^=]*=\s*" % re.escape(name), body)
    if not m:
        return sig, body, 0
    masked = X.mask(body)
    depth = 0
    k = m.end()
    while k < len(body):
        ch = masked[k]
        if ch in "([{":
            depth += 1
        elif ch in ")]}":
            depth -= 1
        elif ch == ";" and depth == 0:
            break
        k += 1
    return sig, body[:m.end()] + repl + body[k:], 1


def r_loop_break_value(sig, body, arg):
    """R18: `let NAME = loop { .. break E; .. };` (Verus has no break-with-value) becomes
    `let mut vx_brk_NAME = None; loop { .. vx_brk_NAME = Some(E); break; .. } let NAME = vx_brk_NAME.unwrap();`"""
    from . import extract as X
    name, _, ty = arg.strip().partition(" ")
    ty = ty.strip()
    m = re.search(r"let\s+%s\s*=\s*loop\s*\{" % re.escape(name), body)
    if not m:
        return sig, body, 0
    bo = m.end() - 1
    bc = X.match_brace(X.mask(body), bo)
    inner = body[bo + 1:bc]
    # only breaks that belong to this loop: the slice has no nested loop left at this point
    inner, n = re.subn(r"\bbreak\s+([^;]+);", r"vx_brk_%s = Some(\1); break;" % name, inner)
    if n == 0:
        return sig, body, 0
    tail = body[bc + 1:]
    tail = re.sub(r"^\s*;", "", tail, count=1)
    decl = "let mut vx_brk_%s%s = None;" % (name, (": Option<%s>" % ty) if ty else "")
    new = (decl + "\n    loop {" + inner + "}\n    let %s = vx_brk_%s.unwrap();" % (name, name))
    return sig, body[:m.start()] + new + tail, 1


_POLY_MAP_DEF = "pub fn map<G: Clone, C: FnMut(&F) -> G>(&self, closure: C) -> Polynomial<G> { Polynomial::<G>::new(self.coefficients.iter().map(closure).collect_vec()) }"


def r_poly_map(sig, body, arg):
    """R4 (through the one-line definition of Polynomial::map, which is checked to be unchanged in
    polynomial.rs): `let X = RECV.map(|[&]c| E);` -> a loop over RECV.coefficients pushing E, then
    `Polynomial::new(..)`; a trailing method chain (e.g. `.fft()`) is kept."""
    import os
    src = open(os.path.join(os.environ.get("VERIF_REPO", "/repo"), "falcon-rust", "src", "polynomial.rs")).read()
    m = re.search(r"pub fn map<G: Clone, C: FnMut\(&F\) -> G>\(&self, closure: C\) -> Polynomial<G> \{.*?\n    \}", src, re.S)
    if not m or re.sub(r"\s+", " ", m.group(0)).strip() != _POLY_MAP_DEF:
        return sig, body, 0
    n = 0
    pat = re.compile(r"let\s+(\w+)\s*=\s*([\w.\[\]]+)\.map\(\|\s*&?(\w+)\s*\|")
    pos = 0
    while True:
        mm = pat.search(body, pos)
        if not mm:
            break
        o = body.index(".map(", mm.start()) + 4
        c = _match_paren(body, o)
        inner = body[o + 1:c]
        cm = re.match(r"\|\s*&?(\w+)\s*\|\s*(.*)$", inner, re.S)
        expr, _ = _strip_deref(cm.group(2).strip(), [cm.group(1)])
        semi = body.index(";", c)
        chain = body[c + 1:semi]
        n += 1
        vec = "vx_pm%d" % n
        new = ("let mut %s = Vec::new();\n    for vx_i in 0..%s.coefficients.len() {\n        let %s = %s.coefficients[vx_i];\n        %s.push(%s);\n    }\n    let %s = Polynomial::new(%s)%s;"
               % (vec, mm.group(2), cm.group(1), mm.group(2), vec, expr, mm.group(1), vec, chain))
        body = body[:mm.start()] + new + body[semi + 1:]
        pos = mm.start() + len(new)
    return sig, body, n


def r_any_chain(sig, body, arg):
    """R4: `if RECV.iter()[.skip(A)].any(|P| E) {` and `if (A..B).any(|P| E) {` -> a flag loop hoisted in
    front of the `if` (no early exit; the flag has the same value).  RECV may be spread over lines."""
    n = 0
    head = re.compile(r"if\s+(?:((?:\w+\s*\.\s*)*\w+)\s*\.\s*iter\(\)\s*(?:\.\s*skip\(((?:[^()]|\([^()]*\))*)\)\s*)?|\(([^().]+?)\.\.([^().]+?)\)\s*)\.\s*any\(")
    pos = 0
    while True:
        m = head.search(body, pos)
        if not m:
            break
        o = m.end() - 1
        c = _match_paren(body, o)
        after = re.match(r"\s*\{", body[c + 1:]) if c > 0 else None
        cm = re.match(r"\s*\|\s*&?\s*(\w+)\s*\|\s*(.*)$", body[o + 1:c], re.S) if c > 0 else None
        if not after or not cm:
            pos = m.end()
            continue
        n += 1
        flag = "vx_any%d" % n
        var, cond = cm.group(1), cm.group(2).strip()
        if m.group(1) is not None:
            recv = re.sub(r"\s+", "", m.group(1))
            lo = "0" if m.group(2) is None else "vx_min(%s, %s.len())" % (m.group(2), recv)
            pre = ("let mut %s = false;\n        for vx_i in %s..%s.len() {\n            let %s = %s[vx_i];\n            if %s { %s = true; }\n        }\n        "
                   % (flag, lo, recv, var, recv, cond, flag))
        else:
            pre = ("let mut %s = false;\n        for vx_i in %s..%s {\n            let %s = vx_i;\n            if %s { %s = true; }\n        }\n        "
                   % (flag, m.group(3).strip(), m.group(4).strip(), var, cond, flag))
        new = pre + "if %s {" % flag
        body = body[:m.start()] + new + body[c + 1 + after.end():]
        pos = m.start() + len(new)
    return sig, body, n


def r_name_chain(sig, body, arg):
    """R19 NameChain <var>: `let <var> = RECV.m1(A1).m2(A2)...mk(Ak);` (RECV an identifier, every Ai
    empty or `&IDENT.m()` / `&IDENT`) becomes a sequence of lets, one per call, in evaluation order."""
    var = arg.strip()
    m = re.search(r"let\s+%s\s*=\s*(\w+)\s*(?=\.)" % re.escape(var), body)
    if not m:
        return sig, body, 0
    pos = m.end()
    calls = []
    while True:
        mm = re.match(r"\s*\.\s*(\w+)\s*\(", body[pos:])
        if not mm:
            break
        o = pos + mm.end() - 1
        c = _match_paren(body, o)
        if c < 0:
            return sig, body, 0
        calls.append((mm.group(1), body[o + 1:c].strip()))
        pos = c + 1
    mm = re.match(r"\s*;", body[pos:])
    if not mm or len(calls) < 2:
        return sig, body, 0
    end = pos + mm.end()
    out = []
    cur = m.group(1)
    na = 0
    for k, (meth, a) in enumerate(calls):
        if a:
            am = re.match(r"^&\s*(\w+)\s*\.\s*(\w+)\s*\(\s*\)$", a)
            if am:
                na += 1
                out.append("let vx_%s_a%d = %s.%s();" % (var, na, am.group(1), am.group(2)))
                a = "&vx_%s_a%d" % (var, na)
            elif not re.match(r"^&?\s*\w+$", a):
                return sig, body, 0
        name = var if k == len(calls) - 1 else "vx_%s_c%d" % (var, k + 1)
        out.append("let %s = %s.%s(%s);" % (name, cur, meth, a))
        cur = name
    indent = re.search(r"[ \t]*$", body[:m.start()]).group(0)
    body = body[:m.start()] + ("\n" + indent).join(out) + body[end:]
    return sig, body, 1



class _P:
    """precedence-climbing parser for the float expressions of the numeric kernels:
    atoms: float literal `1f64` `0.5f64` `1.8205`, identifier, `( E )`, `( E ) as f64` / `(E as f64)`,
    `f64::floor(E)`, unary minus; operators + - * /.  Integer sub-expressions under `as f64` are kept verbatim."""
    def __init__(self, s):
        self.s = s
        self.i = 0
    def ws(self):
        while self.i < len(self.s) and self.s[self.i].isspace():
            self.i += 1
    def peek(self):
        self.ws()
        return self.s[self.i] if self.i < len(self.s) else ""
    def expr(self):
        l = self.term()
        while self.peek() in ("+", "-"):
            op = self.s[self.i]; self.i += 1
            r = self.term()
            l = "%s(%s, %s)" % ("fadd" if op == "+" else "fsub", l, r)
        return l
    def term(self):
        l = self.cast()
        while self.peek() in ("*", "/"):
            op = self.s[self.i]; self.i += 1
            r = self.cast()
            l = "%s(%s, %s)" % ("fmul" if op == "*" else "fdiv", l, r)
        return l
    def cast(self):
        a, is_int_paren = self.atom()
        self.ws()
        m = re.match(r"as\s+f64\b", self.s[self.i:])
        if m:
            self.i += m.end()
            return "fint((%s) as i64)" % a
        if is_int_paren:
            raise ValueError("parenthesised integer expression without cast")
        return a
    def atom(self):
        c = self.peek()
        if c == "-":
            self.i += 1
            a, _ = self.atom()
            return "fneg(%s)" % a, False
        if c == "(":
            o = self.i
            depth = 0
            k = o
            while k < len(self.s):
                if self.s[k] == "(": depth += 1
                elif self.s[k] == ")":
                    depth -= 1
                    if depth == 0: break
                k += 1
            inner = self.s[o + 1:k]
            self.i = k + 1
            mi = re.match(r"^\s*(.*?)\s+as\s+f64\s*$", inner, re.S)
            if mi:   # (z as f64)
                return "fint((%s) as i64)" % mi.group(1), False
            rest = self.s[self.i:]
            if re.match(r"\s*as\s+f64\b", rest):
                return inner, True      # integer expression, cast follows
            return _P(inner).full(), False
        m = re.match(r"f64::floor\s*\(", self.s[self.i:])
        if m:
            o = self.i + m.end() - 1
            depth = 0; k = o
            while k < len(self.s):
                if self.s[k] == "(": depth += 1
                elif self.s[k] == ")":
                    depth -= 1
                    if depth == 0: break
                k += 1
            inner = self.s[o + 1:k]
            self.i = k + 1
            return "ffloor(%s)" % _P(inner).full(), False
        m = re.match(r"(\d+)(?:\.(\d+))?(?:_?f64)?(?![\w.])", self.s[self.i:])
        if m:
            self.i += m.end()
            frac = m.group(2) or ""
            return "flit(%d, %d)" % (int(m.group(1) + frac), len(frac)), False
        m = re.match(r"[A-Za-z_]\w*", self.s[self.i:])
        if m:
            self.i += m.end()
            return m.group(0), False
        raise ValueError("cannot parse float expression at: " + self.s[self.i:self.i + 30])
    def full(self):
        e = self.expr()
        self.ws()
        if self.i != len(self.s):
            raise ValueError("trailing text in float expression: " + self.s[self.i:])
        return e

def r_float_expr(sig, body, arg):
    """R20 FloatExpr <names..>: the right-hand sides of the named `let` / `const` bindings of type f64
    are rewritten, operator by operator, into calls on an uninterpreted IEEE algebra
    (fadd fsub fmul fdiv fneg ffloor fint flit); literals keep their decimal digits."""
    n = 0
    for name in arg.split():
        m = re.search(r"\b(let|const)\s+%s\s*(?::\s*f64\s*)?=\s*([^;]*);" % re.escape(name), body)
        if not m:
            return sig, body, 0
        try:
            e = _P(m.group(2)).full()
        except ValueError:
            return sig, body, 0
        body = body[:m.start()] + "let %s: f64 = %s;" % (name, e) + body[m.end():]
        n += 1
    return sig, body, n



_KW = {"as", "usize", "u8", "u16", "u32", "u64", "u128", "i8", "i16", "i32", "i64", "i128", "isize", "true", "false", "len"}


def inline_fresh_lets(sig, body, mentioned):
    """R22 (engine step, isolation=on functions only); returns (body, [names])."""
    from . import extract as X
    done = []
    pos = 0
    while True:
        masked = X.mask(body)
        m = re.compile(r"\blet\s+([a-z_]\w*)\s*(?::\s*[\w<>]+\s*)?=\s*([^;{}]*);").search(masked, pos)
        if not m:
            break
        pos = m.end()
        name = m.group(1)
        expr = body[m.start(2):m.end(2)].strip()
        depth = masked[:m.start()].count("{") - masked[:m.start()].count("}")
        if depth != 1 or name in mentioned or name in done:
            continue
        if len(re.findall(r"\blet\s+(?:mut\s+)?%s\b" % re.escape(name), masked)) != 1:
            continue
        if not re.match(r"^[\w\s.+\-*/%()<>=!&|]+$", expr) or "&&" in expr or "||" in expr:
            continue
        # calls: only `.len()`
        if re.search(r"\b(?!len\b)[A-Za-z_]\w*\s*\(", expr):
            continue
        ids = set(re.findall(r"\b[A-Za-z_]\w*\b", expr)) - _KW
        ok = True
        for x in ids:
            root = x
            if re.search(r"\blet\s+mut\s+%s\b" % re.escape(root), masked) or re.search(r"&mut\s+%s\b" % re.escape(root), masked) \
                    or re.search(r"\b%s\b[\w.\[\]]*\s*(?:<<|>>|[+\-*/%%|&^])?=(?!=)" % re.escape(root), masked[m.end():]) \
                    or re.search(r"\bmut\s+%s\b" % re.escape(root), sig) or re.search(r"\b%s\s*:\s*&mut\b" % re.escape(root), sig):
                ok = False
                break
        if not ok or not ids:
            continue
        tail = body[m.end():]
        tmask = masked[m.end():]
        out = []
        last = 0
        for u in re.finditer(r"(?<![\w.])%s\b(?!\s*[:(])" % re.escape(name), tmask):
            out.append(tail[last:u.start()])
            out.append("(" + expr + ")")
            last = u.end()
        if last == 0:
            continue
        out.append(tail[last:])
        body = body[:m.end()] + "".join(out)
        done.append(name)
    return body, done


RULES = {
    "Self": r_self,
    "Generic": r_generic,
    "BoolAssign": r_bool_assign,
    "ForUnderscore": r_for_underscore,
    "BitVecIndex": r_bitvec_index,
    "DivModFloor": r_div_mod_floor,
    "IterSkipLoop": r_iter_skip_loop,
    "MapCollect": r_map_collect,
    "MapSum": r_map_sum,
    "IterTakeLoop": r_iter_take_loop,
    "LastUnwrap": r_last_unwrap,
    "HoistChains": r_hoist_chains,
    "PolyBinOp": r_poly_binop,
    "IterMutOpAssign": r_iter_mut_opassign,
    "IntoIterEnumerate": r_into_iter_enumerate,
    "IndexOpAssign": r_index_opassign,
    "SelfOutput": r_self_output,
    "PolyTailExpr": r_poly_tail_expr,
    "TableRefs": r_table_refs,
    "TraitFnCalls": r_trait_fn_calls,
    "ChunksChain": r_chunks_chain,
    "ForInBitVec": r_for_in_bitvec,
    "RenameLocal": r_rename_local,
    "RevRange": r_rev_range,
    "IterLoop": r_iter_loop,
    "TailLet": r_tail_let,
    "FloatScale63": r_float_scale63,
    "ForInSlice": r_for_in_slice,
    "VarOpAssign": r_var_opassign,
    "SliceBinding": r_slice_binding,
    "LoopBreakValue": r_loop_break_value,
    "PolyMap": r_poly_map,
    "NameChain": r_name_chain,
    "FloatExpr": r_float_expr,
    "AnyChain": r_any_chain,
}
RULE_IDS = {"Self": "R1", "Generic": "R1", "BoolAssign": "R2", "ForUnderscore": "R3",
            "BitVecIndex": "R6"}
