"""Registry: verification units and the properties they serve.

A unit is either a set of Kani harnesses on the real crate (backend 'kani') or a Verus file
generated on every run from the real source text plus a contract file (backend 'verus').
"""

FF = "falcon_field::verif::proofs::"
U32 = "u32_field::verif::proofs::"
TAB = "fast_fft::verif::proofs::"
ENC = "encoding::verif::proofs::"
FAL = "falcon::verif::proofs::"
SMP = "samplerz::verif::proofs::"

UNITS = {
    "U-FELT": {
        "backend": "kani",
        "functions": ["falcon_field.rs: Felt::new", "Felt::value", "Felt::balanced_value",
                      "Felt::multiply", "<Felt as Add>::add", "<Felt as Sub>::sub",
                      "<Felt as Neg>::neg", "<Felt as Mul>::mul", "AddAssign/SubAssign/MulAssign",
                      "Zero::zero/is_zero", "One::one", "From<usize>"],
        "groups": [
            {"tier": "quick", "flags": [], "timeout": 900, "harnesses": [
                FF + h for h in ["felt_new_contract", "felt_from_usize_contract",
                                 "felt_value_contract", "felt_add_contract", "felt_sub_contract",
                                 "felt_neg_contract", "felt_mul_contract", "felt_consts_contract"]]},
        ],
        "complete": "loop-free harnesses over the full symbolic domain (complete proofs)",
        "trusted": ["Kani 0.68 / CBMC 6.11 bit-precise semantics of the compiled MIR",
                    "rustc std (overflowing_add/sub) as compiled by Kani"],
    },
    "U-FELT-INV": {
        "backend": "kani",
        "functions": ["falcon_field.rs: <Felt as Inverse>::inverse_or_zero"],
        "groups": [
            {"tier": "quick", "flags": [], "timeout": 3000, "jobs": 16, "harnesses": [
                FF + "felt_inv_%02d" % i for i in range(16)]},
        ],
        "complete": "16 loop-free harnesses whose input slices partition [0, q)",
        "trusted": ["Kani 0.68 / CBMC 6.11"],
    },
}

# property -> units by tier.  'quick' units always run; 'thorough' adds more.
PROPS = {
    "C12": {
        "title": "Arithmetic modulo q = 12289 is exact and canonical",
        "level": "proof",
        "quick": ["U-FELT", "U-FELT-INV"],
        "thorough": [],
        "undecided_clauses": ["batch inversion (inverse.rs) is proved in unit U-BATCHINV once built; until then only the single-element operations are claimed"],
        "assumptions": [],
        "level_text": "Complete proofs on the real compiled code: every operation of Felt is checked against its mathematical definition by Kani over its entire finite input domain (all q^2 operand pairs, all 65536 conversion inputs, all q residues for inversion); harnesses are loop-free, so there is no unwinding bound.",
        "level_note": "Trusted: Kani 0.68 / CBMC 6.11 and their model of rustc MIR and of core's overflowing_add/sub; the property is stated for the Felt type (q = 12289).",
        "technique": "Kani function-contract harnesses (full-domain, loop-free) on the real crate",
    },
}

HOOK_COMMITS = ["f2e89fa"]
