"""Registry: verification units and the properties they serve.

A unit is either a set of Kani harnesses on the real crate (backend 'kani') or a Verus file
generated on every run from the real source text plus a contract file (backend 'verus').
"""

FF = "falcon_field::verif::proofs::"
U32 = "u32_field::verif::proofs::"
TAB = "fast_fft::verif::proofs::"
ENC = "encoding::verif::proofs::"
FAL = "falcon::verif::proofs::"
SMP = "samplerz::verif::proofs::"

UNITS = {
    "U-FELT": {
        "backend": "kani",
        "functions": ["falcon_field.rs: Felt::new", "Felt::value", "Felt::balanced_value",
                      "Felt::multiply", "<Felt as Add>::add", "<Felt as Sub>::sub",
                      "<Felt as Neg>::neg", "<Felt as Mul>::mul", "AddAssign/SubAssign/MulAssign",
                      "Zero::zero/is_zero", "One::one", "From<usize>"],
        "groups": [
            {"tier": "quick", "flags": [], "timeout": 900, "harnesses": [
                FF + h for h in ["felt_new_contract", "felt_from_usize_contract",
                                 "felt_value_contract", "felt_add_contract", "felt_sub_contract",
                                 "felt_neg_contract", "felt_mul_contract", "felt_consts_contract"]]},
        ],
        "complete": "loop-free harnesses over the full symbolic domain (complete proofs)",
        "trusted": ["Kani 0.68 / CBMC 6.11 bit-precise semantics of the compiled MIR",
                    "rustc std (overflowing_add/sub) as compiled by Kani"],
    },
    "U-FELT-INV": {
        "backend": "kani",
        "functions": ["falcon_field.rs: <Felt as Inverse>::inverse_or_zero"],
        "groups": [
            {"tier": "quick", "flags": [], "timeout": 3000, "jobs": 16, "harnesses": [
                FF + "felt_inv_%02d" % i for i in range(16)]},
        ],
        "complete": "16 loop-free harnesses whose input slices partition [0, q)",
        "trusted": ["Kani 0.68 / CBMC 6.11"],
    },
}

UNITS.update({
    "U-TAB": {
        "backend": "kani",
        "functions": ["fast_fft.rs: FELT_BITREVERSED_POWERS_1024", "FELT_BITREVERSED_POWERS_INVERSE_1024",
                      "FELT_NINV_1..FELT_NINV_1024"],
        "groups": [{"tier": "quick", "flags": [], "timeout": 900, "harnesses": [
            TAB + h for h in ["tab_wf", "tab_square_relations", "tab_inverse_relation",
                              "tab_bitreversed_powers", "tab_ninv", "tab_ninv_selected"]]}],
        "complete": "symbolic table index over the whole index range (complete); exponentiation loop unwound to its fixed 10 iterations",
        "trusted": ["Kani 0.68 / CBMC 6.11"],
    },
    "U-SIG": {
        "backend": "kani",
        "functions": ["falcon.rs: Signature::<512>::from_bytes", "Signature::<512>::to_bytes",
                      "Signature::<1024>::from_bytes", "Signature::<1024>::to_bytes"],
        "groups": [{"tier": "quick", "flags": [], "timeout": 2400, "jobs": 8, "harnesses": [
            FAL + h for h in ["sig512_from_bytes_contract", "sig1024_from_bytes_contract",
                              "sig512_round_trip", "sig1024_round_trip", "sig_cross_variant_rejected"]]}],
        "complete": "loop-free on the real code over every byte string of length 0..=1300 (symbolic length, symbolic content) and every signature object of the variant; byte equality through a symbolic index",
        "trusted": ["Kani 0.68 / CBMC 6.11", "alloc (Vec, concat, to_vec) as compiled by Kani"],
    },
    "U-SKF": {
        "backend": "kani",
        "functions": ["falcon.rs: SecretKey::field_element_width", "SecretKey::serialize_field_element",
                      "SecretKey::deserialize_field_element"],
        "groups": [{"tier": "quick", "flags": [], "timeout": 900, "harnesses": [
            FAL + h for h in ["skf_round_trip", "skf_strict"]]}],
        "complete": "all widths x all encodable values x all bit patterns, on the real bit_vec::BitVec; loops bounded by the field width (<= 8), unwinding assertions on",
        "trusted": ["Kani 0.68 / CBMC 6.11", "bit_vec::BitVec as compiled by Kani (real code, not a model)"],
    },
    "U-SAMP": {
        "backend": "kani",
        "functions": ["samplerz.rs: base_sampler", "ber_exp (approx_exp replaced by its contract)"],
        "groups": [{"tier": "quick", "flags": ["-Z", "stubbing"], "timeout": 1200, "harnesses": [
            SMP + h for h in ["base_sampler_contract", "ber_exp_contract"]]}],
        "complete": "base_sampler: all 2^72 inputs; ber_exp: all x in [0, 1e6], ccs in (0.5, 1], all 7-byte strings, all approx_exp results in [1, 2^63]; loops bounded by 8/18 with unwinding assertions",
        "trusted": ["Kani 0.68 / CBMC 6.11 including its IEEE-754 model of f64 floor / div / mul",
                    "assumed contract: approx_exp(r, ccs) in [1, 2^63] for r in [0, ln 2), ccs in [0.5, 1] (stubbed)"],
    },
    "U-SAMPZ": {
        "backend": "verus",
        "template": "contracts/samplerz.vc",
        "search": "search-samplerz",
        "trusted": ["Verus 0.2026.09.13 / Z3; vstd",
                    "UNCHECKED: IEEE-754 double arithmetic treated as uninterpreted functions (only commutativity of + and * assumed); nothing is proved about the values of doubles",
                    "Rust's float-to-int `as` cast: exact when representable, saturating otherwise; i64::saturating_add (assume_specification)",
                    "base_sampler in 0..=18 (U-SAMP, Kani); ber_exp's result is not interpreted here",
                    "rand::Rng::gen modelled as an uninterpreted draw"],
        "assumption_lines": [r"external_body", r"exec_allows_no_decreases_clause", r"assume_specification", r"axiom_commutative"],
        "dropped": ["D5: no decreases clause on the rejection loop (almost-sure termination is probabilistic)"],
        "complete": "unbounded: every centre mu (including non-finite), every width, every byte stream",
        "timeout": 600,
    },
    "U-GS": {
        "backend": "verus",
        "template": "contracts/gs.vc",
        "search": "search-keygen",
        "trusted": ["Verus 0.2026.09.13 / Z3; vstd",
                    "UNCHECKED: doubles, complex doubles and the complex FFT treated as uninterpreted functions (only commutativity of + and max assumed); nothing is proved about numerical values"],
        "assumption_lines": [r"external_body", r"axiom_commutative", r"axiom_padd_commutative"],
        "dropped": [],
        "complete": "unbounded: every f, g of equal length",
        "timeout": 300,
    },
    "U-CODEC-K": {
        "backend": "kani",
        "functions": ["encoding.rs: compress_coefficient"],
        "groups": [{"tier": "quick", "flags": [], "timeout": 600, "harnesses": [
            ENC + "compress_coefficient_contract"]}],
        "complete": "all 65536 inputs",
        "trusted": ["Kani 0.68 / CBMC 6.11"],
    },
    "U-H2P": {
        "backend": "verus",
        "template": "contracts/h2p.vc",
        "search": "search-h2p",
        "trusted": ["Verus 0.2026.09.13 / Z3; vstd",
                    "UNCHECKED: sha3::Shake256 computes SHAKE-256; modelled as an abstract byte stream shake(input, i) read two bytes at a time",
                    "Felt::new contract (discharged by Kani harness felt_new_contract in U-FELT)",
                    "termination of the rejection loop is not proved (D5: probabilistic)"],
        "assumption_lines": [r"external_body", r"exec_allows_no_decreases_clause"],
        "dropped": ["D5: no decreases clause on the rejection-sampling loop"],
        "complete": "unbounded: every input string, every n",
        "timeout": 600,
    },
    "U-NTT-CORE": {
        "backend": "verus",
        "template": "contracts/ntt_core.vc",
        "search": "search-ntt",
        "trusted": ["Verus 0.2026.09.13 / Z3; vstd (slices, arithmetic lemmas)",
                    "Felt operator contracts (Add, Sub, Mul; discharged by Kani in U-FELT)",
                    "generic trait text instantiated at Self := Felt only (D1)"],
        "assumption_lines": [r"external_body"],
        "dropped": ["D1: proofs are about the Felt instantiation of the generic trait bodies", "D2: trait dispatch"],
        "complete": "unbounded: every power-of-two length up to 1024 and every input",
        "timeout": 900,
    },
    "U-NTT-POLY": {
        "backend": "verus",
        "template": "contracts/ntt_poly.vc",
        "search": "search-ntt",
        "trusted": ["Verus 0.2026.09.13 / Z3; vstd",
                    "felt_fft / felt_ifft contracts (discharged in U-NTT-CORE)",
                    "table_facts about FELT_BITREVERSED_POWERS[_INVERSE]_1024 and FELT_NINV_* (discharged by Kani in U-TAB: tab_wf, tab_square_relations, tab_inverse_relation, tab_ninv)",
                    "Felt operator contracts (U-FELT)", "derive(Clone) on Polynomial returns an equal value",
                    "operator-assign on Felt equals the operator (discharged by Kani: felt_*_contract '*_assign == *')"],
        "assumption_lines": [r"external_body"],
        "dropped": ["D1: F := Felt", "D2: trait dispatch; operator syntax on Polynomial rewritten to the extracted impl functions (R14)"],
        "complete": "unbounded",
        "timeout": 900,
    },
    "U-VERIFY": {
        "backend": "verus",
        "template": "contracts/verify.vc",
        "search": "search-verify",
        "trusted": ["Verus 0.2026.09.13 / Z3; vstd",
                    "callee contracts: hash_to_point (U-H2P), decompress (U-CODEC), Polynomial fft/ifft/hadamard_mul/poly_sub/poly_add (U-NTT-POLY), Felt::new/balanced_value (U-FELT), Polynomial::new",
                    "table_facts (U-TAB)", "alloc: [a.to_vec(), b.to_vec()].concat() is concatenation",
                    "UNCHECKED: sha3 computes SHAKE-256 (inherited from U-H2P)"],
        "assumption_lines": [r"external_body"],
        "dropped": [],
        "complete": "unbounded: every message, signature object and public key satisfying the type invariants",
        "timeout": 900,
    },
    "U-PK": {
        "backend": "verus",
        "template": "contracts/pk.vc",
        "models": ["model-bitvec"],
        "search": "search-pk",
        "trusted": ["Verus 0.2026.09.13 / Z3; vstd",
                    "model of bit_vec::BitVec (from_bytes, push, to_bytes, len, index) and of itertools chunks over its iterator (vx_chunk / vx_nchunks)",
                    "usize::ilog2 = floor(log2) (assume_specification)", "Felt::new / value contracts (U-FELT)", "Polynomial::new (U-NTT-POLY)"],
        "assumption_lines": [r"external_body", r"assume_specification"],
        "dropped": [],
        "complete": "unbounded: every byte string / every public key object of either variant",
        "timeout": 900,
    },
    "U-BATCHINV": {
        "backend": "verus",
        "template": "contracts/batchinv.vc",
        "search": "search-batchinv",
        "trusted": ["Verus 0.2026.09.13 / Z3; vstd",
                    "Felt operators, zero/one/is_zero (U-FELT); inverse_or_zero and the existence of inverses in Z_q (finv_facts: discharged by Kani over all residues in U-FELT-INV)",
                    "operator-assign on Felt equals the operator (U-FELT)"],
        "assumption_lines": [r"external_body"],
        "dropped": ["D1: Self := Felt"],
        "complete": "unbounded: every batch length and content",
        "timeout": 600,
    },
    "U-SIGN": {
        "backend": "verus",
        "template": "contracts/sign.vc",
        "search": "search-sign",
        "trusted": ["Verus 0.2026.09.13 / Z3; vstd",
                    "UNCHECKED: rand::thread_rng modelled as an abstract ambient byte stream (freshness, uniformity and per-thread independence of that stream are properties of `rand` and the OS)",
                    "D4: the floating-point pipeline of sign (target, ffSampling, (t-z)B, norm rejection loop, inverse FFT, rounding) is outside the verified slice: uncontracted external calls",
                    "hash_to_point (U-H2P), compress (U-CODEC), FalconVariant (U-VERIFY) through their contracts"],
        "assumption_lines": [r"external_body", r"exec_allows_no_decreases_clause"],
        "dropped": ["D4: bindings one_over_q, c_over_q_fft, capital_f_fft, f_fft, capital_g_fft, g_fft, t0, t1, bold_s (the inner loop), s2 and the rounding closure replaced by external calls",
                    "D5: no decreases clause on the compression retry loop"],
        "complete": "unbounded: every message and key; partial correctness of the retry loop",
        "timeout": 600,
    },
    "U-KEYGEN": {
        "backend": "verus",
        "template": "contracts/keygen.vc",
        "search": "search-keygen",
        "trusted": ["core: i16::abs (assume_specification; used only if a tail of from_bytes calls it)", "Verus 0.2026.09.13 / Z3; vstd",
                    "Polynomial fft / ifft / hadamard_div contracts (U-NTT-POLY, U-BATCHINV), table_facts (U-TAB), existence of inverses (U-FELT-INV), Felt::new / Neg / is_zero (U-FELT)",
                    "Polynomial::map is the element-wise map (its one-line definition in polynomial.rs is compared textually on every run)",
                    "D4: gen_poly, gram_schmidt_norm_squared, ntru_solve_entrypoint and the `as i16` narrowing of F, G are outside the verified slice of ntru_gen (uncontracted external calls); the f64 comparison with 1.3689*q enters as an external predicate whose constant is pinned to 13689/10^4",
                    "termination of ntru_gen's rejection loop is not proved"],
        "assumption_lines": [r"external_body", r"exec_allows_no_decreases_clause", r"assume_specification"],
        "dropped": ["D4: bindings computed in floating point / BigInt in ntru_gen", "D5: no decreases clause on ntru_gen's loop"],
        "complete": "unbounded: every secret key object with invertible f; every execution of ntru_gen's loop",
        "timeout": 900,
    },
    "U-FRAME": {
        "backend": "frame",
        "functions": ["falcon.rs: sign (signature), SecretKey / PublicKey / Signature (auto traits)"],
        "trusted": ["rustc's type checker (auto traits Send / Sync, borrow of &SecretKey)",
                    "the scan is textual: no unsafe, static mut, interior mutability, thread_local!, lazy_static!, Mutex, atomics or statics in non-test code"],
        "complete": "compile-time obligations + whole-crate source scan",
    },
    "U-APPROX": {
        "backend": "verus",
        "template": "contracts/approx.vc",
        "trusted": ["Verus 0.2026.09.13 / Z3; vstd",
                    "D4: the two float-to-integer conversions floor(2^63 * v) as u64 are outside the verified text (uninterpreted function spec_scale63)"],
        "assumption_lines": [r"external_body"],
        "dropped": ["D4: f64::floor(x * 2^63) as u64 and f64::floor(2^63 * ccs) as u64 replaced by calls of an uninterpreted external function"],
        "complete": "unbounded: every 63-bit z and every 64-bit scaled ccs",
        "timeout": 600,
    },
    "U-SK": {
        "backend": "verus",
        "template": "contracts/sk.vc",
        "models": ["model-bitvec"],
        "search": "search-sk",
        "trusted": ["Verus 0.2026.09.13 / Z3; vstd",
                    "model of bit_vec::BitVec and of itertools chunks over its iterator with skip/take (vx_chunk / vx_nchunks)",
                    "secret-key field codec contracts (discharged by Kani in U-SKF on the real BitVec)",
                    "D4 ASSUMED: the tail of SecretKey::from_bytes (recomputation of G through the NTT, from_b0, sign plumbing of b0) stores the decoded f, g, F as b0 = [g, -f, G, -F] and does not panic",
                    "usize::checked_ilog2 (assume_specification); FalconVariant::from_n / parameters (U-VERIFY)"],
        "assumption_lines": [r"external_body", r"assume_specification"],
        "dropped": ["D4: tail of from_bytes from `let capital_g = ...` replaced by the call vx_sk_assemble(f, g, capital_f)"],
        "complete": "unbounded: every byte string",
        "timeout": 900,
    },
    "U-CODEC": {
        "backend": "verus",
        "template": "contracts/codec.vc",
        "models": ["model-bitvec"],
        "search": "search-codec",
        "trusted": ["Verus 0.2026.09.13 / Z3; vstd specifications of Vec and slices",
                    "model of bit_vec::BitVec (from_bytes = MSB-first bits, len, index, get)",
                    "num_integer div_mod_floor on usize = (n / d, n % d)",
                    "usize is 64 bits; buffers shorter than 2^59 bytes"],
        "assumption_lines": [r"external_body"],
        "dropped": ["D3: #[cfg(test)] module, compress_slow, decompress_slow"],
        "complete": "unbounded in n and in the buffer length",
        "timeout": 900,
    },
})

# property -> units by tier.  'quick' units always run; 'thorough' adds more.
PROPS = {
    "C12": {
        "title": "Arithmetic modulo q = 12289 is exact and canonical",
        "level": "proof",
        "quick": ["U-FELT", "U-FELT-INV", "U-BATCHINV"],
        "thorough": [],
        "undecided_clauses": [],
        "assumptions": [],
        "level_text": "Complete proofs on the real compiled code: every operation of Felt is checked against its mathematical definition by Kani over its entire finite input domain (all q^2 operand pairs, all 65536 conversion inputs, all q residues for inversion); harnesses are loop-free, so there is no unwinding bound. Batch inversion (trait default body at Self := Felt) is proved unbounded in the batch length by Verus on the extracted text: every entry of the result is the inverse (0 for 0) of the corresponding input.",
        "level_note": "Trusted: Kani 0.68 / CBMC 6.11 and their model of rustc MIR and of core's overflowing_add/sub; the property is stated for the Felt type (q = 12289).",
        "technique": "Kani function-contract harnesses (full-domain, loop-free) on the real crate + Verus loop invariants on the extracted batch inversion",
    },
}

PROPS.update({
    "C07": {
        "title": "Signature compression is lossless and canonical",
        "level": "proof",
        "quick": ["U-CODEC", "U-CODEC-K"],
        "thorough": [],
        "undecided_clauses": [],
        "assumptions": [],
        "level_text": "Unbounded deductive proof (Verus) on the text of encoding.rs::decompress/compress extracted on every run: decompress returns exactly what Algorithm 18 (written as a recursive specification, with the property's magnitude bound) returns, for every byte string and every n >= 1, including totality (no index out of bounds, no overflow); compress_coefficient is proved over all i16 by Kani.",
        "level_note": "Assumed: the BitVec model (from_bytes/len/index/get) and div_mod_floor contract; vstd; usize = 64 bit. Generic iterator chains are rewritten to loops by catalogued rules only.",
        "technique": "Verus contracts on mechanically extracted real functions + Kani full-domain contract harness",
    },
})

PROPS.update({
    "C14": {
        "title": "HashToPoint equals the specified SHAKE-256 rejection sampler",
        "level": "proof",
        "quick": ["U-H2P", "U-FELT"],
        "thorough": [],
        "undecided_clauses": ["that the sha3 crate computes SHAKE-256 (external dependency; assumed)",
                              "termination of the rejection loop (probability-one, not a deductive obligation)"],
        "assumptions": [],
        "level_text": "Unbounded Verus proof on the extracted text of polynomial.rs::hash_to_point: the returned coefficients are exactly Algorithm 3 applied to the SHAKE-256 output stream of the string (big-endian 16-bit words, reject >= 61445, reduce mod q, first n accepted), each in [0,q); determinism and the 512-prefix-of-1024 clause are theorems over the specification function. Felt::new's contract is discharged by Kani on the real code.",
        "level_note": "Assumed and unchecked: the sha3 crate implements SHAKE-256 (modelled as an uninterpreted byte stream). Partial correctness only (the rejection loop's termination is probabilistic).",
        "technique": "Verus contract on mechanically extracted real function + Kani contract harness for Felt::new",
    },
})

PROPS.update({
    "C11": {
        "title": "NTT-based multiplication in Z_q[X]/(X^n+1) is exact",
        "level": "proof",
        "quick": ["U-NTT-CORE", "U-NTT-POLY", "U-TAB", "U-FELT"],
        "thorough": ["U-FELT-INV"],
        "undecided_clauses": [],
        "assumptions": [],
        "level_text": "Unbounded deductive proof. The real butterfly loops (trait default bodies fft/ifft at Self := Felt, extracted on every run) are proved by Verus to compute the composition of forward / inverse stages; spec-level theorems (thm_fwd_is_ntt, thm_inv_fwd, lemma_eval_hom, thm_c11_roundtrip, thm_c11_product) prove that composition evaluates at the roots of X^n+1, that the inverse inverts it, and that pointwise products correspond to the negacyclic product, for every power-of-two n <= 1024 and all inputs. The table clauses (bit-reversed powers of a primitive 2048-th root, inverse table, n^-1 constants) are proved on the real tables by Kani with a symbolic index.",
        "level_note": "Trusted: Verus/Z3, Kani/CBMC, vstd; proofs are for the Felt instantiation of the generic trait code; Felt operators enter Verus as contracts discharged by Kani over their full domains.",
        "technique": "Verus loop invariants on extracted real code + spec-level lemmas; Kani symbolic-index table harnesses",
    },
    "C02": {
        "title": "verify accepts exactly the signatures the Falcon specification accepts",
        "level": "proof",
        "quick": ["U-VERIFY", "U-CODEC", "U-CODEC-K", "U-H2P", "U-NTT-CORE", "U-NTT-POLY", "U-TAB", "U-FELT", "U-PK"],
        "thorough": ["U-SIG"],
        "undecided_clauses": ["that the sha3 crate computes SHAKE-256 (assumed)"],
        "assumptions": [],
        "level_text": "verify's postcondition is the specification function spec_verify (Algorithm 16 with Algorithms 3 and 18, bounds 34034726 / 70265242 typed from the property) for every message, signature object and public key satisfying the type invariants; proved by Verus on the extracted text of verify over the contracts of its callees, each of which is discharged on the real code in its own unit (decompress, hash_to_point, the NTT, Felt arithmetic, tables). Boundary behaviour (norm = bound-1, bound, bound+1) is part of the specification function; a concrete boundary witness is built by the replay tool.",
        "level_note": "Assumed and unchecked: SHAKE-256 as an abstract stream. Assumed models: BitVec, div_mod_floor, Vec concat. usize = 64 bit.",
        "technique": "Verus contract composition over per-function contracts + Kani leaf contracts",
    },
    "C03": {
        "title": "Decoders and verify are total: untrusted bytes never cause a panic",
        "level": "proof",
        "quick": ["U-VERIFY", "U-CODEC", "U-H2P", "U-NTT-CORE", "U-NTT-POLY", "U-SIG", "U-PK", "U-SK", "U-SKF", "U-KEYGEN", "U-BATCHINV", "U-FELT"],
        "thorough": [],
        "undecided_clauses": ["the integer tail of SecretKey::from_bytes (G recomputation through the NTT) is proved panic-free and Ok (U-KEYGEN from_bytes_tail over the U-NTT-* / U-BATCHINV contracts); from_b0 (floating-point FFT, LDL tree) and the balanced-value plumbing are not analysed"],
        "assumptions": [],
        "level_text": "Every built-in panic obligation (index, slice range, unwrap, unreachable!/panic! arms, + - * << overflow as in an overflow-checked build) is discharged by Verus in decompress, verify, hash_to_point and the whole NTT path, for all inputs; PublicKey::from_bytes and the parsing part of SecretKey::from_bytes likewise (Verus, every byte string); Signature::from_bytes is total on every byte string of length <= 1300, the secret-key field decoder on every field of 1..8 bits, and Felt::new on every i16 (Kani, complete).",
        "level_note": "Assumed panic-free: sha3, BitVec/itertools internals (modelled), Vec allocation. Partial: the two key decoders are covered separately.",
        "technique": "Verus built-in safety obligations on extracted real code + Kani full-domain harnesses",
    },
})

PROPS.update({
    "C06": {
        "title": "Decoding is strict: only the canonical encoding of an object is accepted",
        "level": "proof",
        "quick": ["U-SIG", "U-PK", "U-SK", "U-SKF", "U-FELT"],
        "thorough": [],
        "undecided_clauses": ["the tail of SecretKey::from_bytes after the three field loops (recomputation of G via the NTT, from_b0, sign plumbing of b0) enters as an assumed contract (D4): that the decoded f, g, F are stored as b0 = [g, -f, G, -F]"],
        "assumptions": [],
        "level_text": "Signature: complete Kani proof on the real code that from_bytes accepts a byte string of any length <= 1300 only if re-encoding reproduces it, and rejects everything that is not the variant's layout. PublicKey: unbounded Verus proof on the extracted text of from_bytes / to_bytes against the specification's layout predicate (header, 14-bit fields below q), with the theorems thm_pk_strict (accepted => to_bytes reproduces the input bit for bit) and thm_pk_roundtrip. Secret key: Verus proof on the extracted text of from_bytes (header, log n, variant, the three field sections with skip/take/chunks, the exact-length check) and to_bytes against the specification's layout predicate, with thm_sk_strict / thm_sk_roundtrip; the per-field codec is proved strict over all field lengths 1..8 and all bit patterns by Kani on the real BitVec.",
        "level_note": "Assumed: BitVec / itertools-chunks model in the Verus unit; Kani/CBMC; vstd. Secret-key whole-function strictness is listed as undecided.",
        "technique": "Kani full-domain contract harnesses + Verus contracts on extracted real functions",
    },
    "C05": {
        "title": "Keys and signatures survive serialisation: fixed sizes, exact round trip",
        "level": "other",
        "quick": ["U-SIG", "U-PK", "U-SK", "U-SKF", "U-KEYGEN", "U-NTT-POLY", "U-NTT-CORE", "U-BATCHINV", "U-TAB", "U-FELT"],
        "thorough": ["U-FELT-INV"],
        "undecided_clauses": ["equality of the recomputed G after a secret-key round trip: proved is that from_bytes never fails after the field checks and returns G with G*f == g*F in Z_q[X]/(X^n+1) (U-KEYGEN, from_bytes_tail); that this G equals the generated one needs the NTRU equation over Z and |G| < q/2 (C04, undecided there); from_b0 and the balanced-value / sign plumbing of b0 stay outside the verified text",
                              "'the decoded key signs messages that verify' reduces to C01"],
        "assumptions": [],
        "explanation": "Partial claim. Proved: signatures encode to exactly 666 / 1280 bytes and from_bytes(to_bytes(sig)) == sig for every signature object (Kani, complete); public keys encode to exactly 897 / 1793 bytes in the specification's layout and decode back to the same key (Verus, unbounded, theorems thm_pk_strict / thm_pk_roundtrip); secret keys whose f, g, F are in the encodable range encode to exactly 1281 / 2305 bytes in the specification's layout and f, g, F are recovered by from_bytes (Verus, unbounded; per-field codec by Kani); ntru_gen returns only polynomials in that range (Verus on the statement slice of ntru_gen: the four rejection tests added by fix ec40539 — defect F8 was found by this postcondition). from_bytes never fails after the field checks and recomputes a G with G*f == g*F mod (q, X^n+1). Not decided: that this G equals the generated one (needs the NTRU equation over Z, C04), from_b0 and the sign / balanced-value plumbing of b0.",
        "level_text": "Partial: proof-level for signature and public key, field-level for the secret key; see undecided clauses.",
        "level_note": "Assumed: BitVec/chunks model, Kani/CBMC, Verus/Z3. The secret-key clauses listed as undecided are not claimed.",
        "technique": "Kani full-domain contract harnesses + Verus contracts on extracted real functions",
    },
})

PROPS.update({
    "C04": {
        "title": "Every generated key pair is a valid NTRU trapdoor with in-range tree leaves",
        "level": "other",
        "quick": ["U-KEYGEN", "U-GS", "U-NTT-POLY", "U-NTT-CORE", "U-BATCHINV", "U-TAB", "U-FELT"],
        "thorough": ["U-FELT-INV"],
        "undecided_clauses": ["f*G - g*F = q over Z[X]/(X^n+1): NTRUSolve (BigInt tower, floating-point Babai reduction) and the unchecked `as i16` narrowing are outside any contract here; no failing seed is known, so this is undecided, not a finding",
                              "the leaf range [sigma_min, sigma_max] of the signing tree (floating-point LDL)",
                              "the glue gen_b0 / from_b0 between ntru_gen and from_secret_key (b0 = [g, -f, G, -F]) is read, not verified"],
        "assumptions": [],
        "explanation": "Partial claim. Proved on extracted text (Verus): (1) the pair (f, g) that ntru_gen returns is the pair it tested, f is invertible modulo q (its NTT vanishes nowhere) and the Gram-Schmidt acceptance test it passed compares with the property's constant 1.3689*q; (2) PublicKey::from_secret_key returns h with h*f == g in Z_q[X]/(X^n+1) for every secret key whose f is invertible (via the NTT contracts, batch inversion and the theorems thm_fwd_is_ntt / thm_inv_fwd / thm_fwd_inv). Not decided: the NTRU equation and the tree leaves.",
        "level_text": "Partial: the modular-arithmetic clauses (f invertible, h = g/f) are proved; the integer NTRU equation and the floating-point tree are not decided.",
        "level_note": "ntru_gen is verified as a statement slice (D4); see undecided clauses.",
        "technique": "Verus contracts on extracted real functions / statement slices, composed over the NTT contracts",
    },
    "C01": {
        "title": "Every honestly produced signature verifies (both variants)",
        "level": "other",
        "quick": ["U-SIGN", "U-CODEC", "U-CODEC-K", "U-VERIFY", "U-H2P", "U-NTT-CORE", "U-NTT-POLY", "U-TAB", "U-FELT", "U-FRAME"],
        "thorough": [],
        "undecided_clauses": ["that the vector produced by the floating-point pipeline of sign (t = (c,0)B^-1, ffSampling, (t-z)B, float norm test, rounding) is a short point of the right coset, i.e. the norm hypothesis of thm_c01_accept: not expressible without real-arithmetic reasoning over a 512-point complex FFT",
                              "thread interleavings: sign takes &SecretKey and the crate has no unsafe / static mut / interior mutability (scanned by the check), SecretKey: Send + Sync is a compile-time obligation of the replay crate; no contract states more"],
        "assumptions": [],
        "explanation": "Partial claim. Proved: (1) verifier side, theorem thm_c01_accept over the contracts of compress and verify: for every message, salt, public key h and in-range vector v, a signature whose body is compress(v) and whose (c - v*h centred, v) has squared norm <= floor(beta^2) is accepted, and (thm_c01_only) nothing else is; (2) sign's plumbing (U-SIGN): the body sign returns is the Algorithm-17 encoding of one vector into exactly 625 / 1239 bytes, with the salt that was hashed; that vector is the rounded inverse transform of the second component of a pair that left the norm-rejection loop, and a pair leaves that loop only if its squared norm, as sign computes it in doubles, is not greater than the variant's floor(beta^2) (doubles uninterpreted: which comparison against which constant, not its numerical meaning). Not decided: that the double-precision norm of the sampled pair bounds the integer norm verify recomputes (the norm hypothesis of thm_c01_accept).",
        "level_text": "Partial: acceptance is reduced to one hypothesis about the floating-point sampler's output, which this family cannot decide.",
        "level_note": "Detects changes to verify, the codec, hashing, the salt / compress plumbing of sign, the norm-rejection test of sign and the bound constants; blind to changes inside the lattice sampler (ffSampling, the basis arithmetic).",
        "technique": "Verus: theorem over the postconditions of compress and verify + contract on a statement slice of sign",
    },
})

PROPS["C06fast"] = dict(PROPS["C06"], quick=["U-PK", "U-SK", "U-SKF"])

PROPS.update({
    "C09": {
        "title": "The integer Gaussian sampler is total and follows D_{Z,mu,sigma}",
        "level": "other",
        "quick": ["U-SAMP", "U-APPROX", "U-SAMPZ"],
        "thorough": [],
        "undecided_clauses": ["the output distribution of sampler_z (a probabilistic statement; follows from the three blocks by the specification's analysis, not by a contract)",
                              "almost-sure termination of the rejection loop",
                              "the values of the doubles sampler_z computes (rounding error of x and ccs): U-SAMPZ proves which expression is evaluated, not what it evaluates to",
                              "the lower bound approx_exp >= 1 on ber_exp's domain (assumed in ber_exp's harness) and the float-to-integer conversions"],
        "assumptions": [],
        "explanation": "Partial claim, proof-level for the integer building blocks only. base_sampler == BaseSampler (count of RCDT entries above u) on all 2^72 inputs (Kani, complete, table typed from the specification). approx_exp's integer recurrence == ApproxExp for every 63-bit z and every scaled ccs, with no under/overflow (Verus on the extracted text, constants checked against the specification's). ber_exp == BerExp whenever the 7 supplied bytes decide the comparison, and is panic-free otherwise EXCEPT the recorded finding F6 (7-byte tie). sampler_z (Verus on the extracted text, doubles as an uninterpreted IEEE algebra): its integer plumbing cannot overflow for any centre, width or byte stream (defect F7 found here and repaired, fix 2b9a817), every round passes BerExp exactly the expression tree of Algorithm 15 (constants sigma_max = 1.8205, 1/2, 2; operands z, r, sigma', z0) and ccs = sigma_min / sigma', and the result is z + floor(mu) of the accepted round whenever representable. Distribution, termination and the numerical values of the doubles are not decided.",
        "level_text": "Partial: the three integer building blocks equal the specification's on every input (proof-level); the distribution-level statement is not claimed.",
        "level_note": "Known finding F6 is reported as KNOWN-FINDING and does not fail the check; any other failing obligation does.",
        "technique": "Kani full-domain contract harnesses (+ contract stub for approx_exp) and Verus contracts on the extracted integer core and on sampler_z over an uninterpreted floating-point algebra",
    },
})

PROPS.update({
    "C08": {
        "title": "Every signature carries a fresh random 40-byte salt",
        "level": "other",
        "quick": ["U-SIGN"],
        "thorough": [],
        "undecided_clauses": ["uniqueness / non-repetition of salts across calls, keys and threads and the absence of constant byte positions are properties of the OS-seeded generator behind rand::thread_rng (a history-level, probabilistic statement no function contract expresses); assumed"],
        "assumptions": [],
        "explanation": "Partial claim, proved on the extracted text of sign (Verus): the salt that sign returns is a window of 40 consecutive bytes that this very call drew from rand::thread_rng (on the current code: the first 40), nothing else writes to it, and (stated for C01) the string that is hashed to a point is that salt followed by the message. This rules out a constant, message- or key-derived, partially overwritten, re-drawn-after-hashing or otherwise recycled salt. That the generator's stream itself is fresh and unpredictable is assumed.",
        "level_text": "Partial: the data flow of the salt inside sign is proved; the randomness source is assumed.",
        "level_note": "thread_rng is modelled as an abstract ambient byte stream; the floating-point part of sign is sliced away (D4).",
        "technique": "Verus contract on a mechanically extracted statement slice of the real function",
    },
})

HOOK_COMMITS = ["f2e89fa"]
