"""Property runner: executes the units of a property, classifies outcomes, writes evidence."""
import json
import os
import re
import subprocess
import sys
import time

from . import units as U
from . import kani as K

VERIF = os.path.dirname(os.path.dirname(os.path.abspath(__file__)))
REPO = os.environ.get("VERIF_REPO", "/repo")
EVID = os.path.join(VERIF, "evidence")
REPLAY_DIR = os.path.join(VERIF, "build", "replay")
REPLAY_TARGET = os.path.join(VERIF, "build", "replay-target")


def load_known():
    p = os.path.join(VERIF, "known_findings.json")
    if not os.path.exists(p):
        return {"findings": [], "fixed": []}
    return json.load(open(p))


def short(h):
    return h.split("::")[-1]


# --------------------------------------------------------------------------------------------
# unit execution


def run_kani_unit(name, spec, tier):
    res = {"unit": name, "backend": "kani", "obligations": 0, "discharged": 0, "failures": [],
           "undecided": [], "functions": spec.get("functions", []), "cmds": [],
           "solver_time_s": 0.0, "wall_s": 0.0, "trusted": list(spec.get("trusted", [])),
           "bounded": [], "samples": [], "notes": spec.get("complete", "")}
    floors_p = os.path.join(VERIF, "kani_floors.json")
    floors = json.load(open(floors_p)) if os.path.exists(floors_p) else {}
    for g in spec["groups"]:
        if g["tier"] == "thorough" and tier != "thorough":
            continue
        out = K.run_group(g["harnesses"], g.get("flags", []), jobs=g.get("jobs", 8),
                          timeout=g.get("timeout", 1800))
        res["cmds"].append(out["cmd"])
        res["wall_s"] += out["wall"]
        if out["build_error"]:
            res["undecided"].append("kani build/run error: " + out["build_error"][-1500:])
            continue
        for h in g["harnesses"]:
            r = out["results"][h]
            bounded = g.get("bounded")
            res["solver_time_s"] += r["time"]
            if r["status"] == "SUCCESSFUL":
                if r["covers_sat"] != r["covers_total"]:
                    res["undecided"].append(
                        "vacuity guard: harness %s has %d of %d reachability covers satisfied"
                        % (h, r["covers_sat"], r["covers_total"]))
                    continue
                fl = floors.get(short(h), 1)
                if r["checks"] < fl:
                    res["undecided"].append("harness %s generated %d checks, floor is %d"
                                            % (h, r["checks"], fl))
                    continue
                if bounded:
                    res["bounded"].append({"harness": short(h), "bound": bounded,
                                           "checks": r["checks"]})
                else:
                    res["obligations"] += r["checks"]
                    res["discharged"] += r["checks"]
                res["samples"].append({"harness": h, "checks": r["checks"],
                                       "covers": r["covers_total"], "time_s": r["time"],
                                       "bounded": bounded or None})
            elif r["status"] == "FAILED":
                d = K.diagnose(h, g.get("flags", []), timeout=g.get("timeout", 1800))
                res["cmds"].append(d["cmd"])
                res["wall_s"] += d["wall"]
                if not bounded:
                    res["obligations"] += r["checks"]
                    res["discharged"] += r["checks"] - r["failed"]
                fails = d["failed_checks"] or [{"desc": "verification failed", "loc": ""}]
                # pair each failed check with a counterexample for that check if Kani printed one
                for f in fails:
                    cex = None
                    for t in d["counterexamples"]:
                        if t["check"].strip('"') in f["desc"] or f["desc"] in t["check"]:
                            cex = t
                            break
                    if cex is None and d["counterexamples"]:
                        cex = d["counterexamples"][0]
                    res["failures"].append({
                        "unit": name, "backend": "kani", "where": h, "kind": "kani-check",
                        "desc": f["desc"], "loc": f["loc"], "output": d["summary"],
                        "cex": ({"harness": short(h), "vals": cex["vals"],
                                 "decoded": cex["values_decoded"]} if cex else None)})
            else:
                res["undecided"].append("harness %s: %s" % (h, r["status"]))
    return res


def run_frame_unit(name, spec, tier):
    """Frame conditions for the concurrency clause of C01: (1) rustc discharges the Send + Sync
    obligations and the `&SecretKey` signature of sign when it type-checks the replay crate;
    (2) a source scan shows the crate has no construct that could share mutable state."""
    import glob
    t0 = time.time()
    res = {"unit": name, "backend": "rustc+scan", "obligations": 0, "discharged": 0, "failures": [],
           "undecided": [], "functions": spec.get("functions", []), "cmds": [], "solver_time_s": 0.0,
           "wall_s": 0.0, "trusted": list(spec.get("trusted", [])), "bounded": [], "samples": [],
           "notes": spec.get("complete", "")}
    binp, err = build_replay()
    res["cmds"].append("cargo build --offline (replay crate: fn c01_frame_obligations)")
    res["obligations"] += 8
    if binp:
        res["discharged"] += 8
        res["samples"].append({"rustc": "SecretKey/PublicKey/Signature<512|1024>: Send + Sync; sign: fn(&[u8], &SecretKey) -> Signature"})
    else:
        if "Send" in err or "Sync" in err or "mismatched types" in err:
            res["failures"].append({"unit": name, "backend": "rustc", "where": "replay/src/main.rs c01_frame_obligations",
                                    "kind": "type obligation", "desc": "Send + Sync / &SecretKey obligation rejected by rustc",
                                    "loc": "", "output": err[-2000:], "cex": None})
        else:
            res["undecided"].append("replay crate did not build: " + err[-600:])
    pats = [r"\bunsafe\b", r"static\s+mut\b", r"UnsafeCell", r"RefCell", r"\bCell<", r"thread_local!", r"lazy_static!",
            r"\bMutex\b", r"\bAtomic\w+", r"\bstatic\s+[A-Z_]+\s*:"]
    from . import extract as X
    for f in sorted(glob.glob(os.path.join(REPO, "falcon-rust", "src", "*.rs"))):
        src = open(f).read()
        masked = X.mask(src)
        for pat in pats:
            res["obligations"] += 1
            hits = [m for m in re.finditer(pat, masked) if not X._in_test_mod(masked, m.start())]
            if hits:
                ln = src.count("\n", 0, hits[0].start()) + 1
                # a syntactic hit refutes nothing (thread-local or synchronised state is compatible
                # with the property): the frame condition is then simply not established
                res["undecided"].append("frame condition not established syntactically: /%s/ at falcon-rust/src/%s:%d: %s"
                                        % (pat, os.path.basename(f), ln, src.splitlines()[ln - 1].strip()[:120]))
            else:
                res["discharged"] += 1
    res["wall_s"] = time.time() - t0
    return res


def run_unit(name, tier):
    spec = U.UNITS[name]
    if spec["backend"] == "frame":
        return run_frame_unit(name, spec, tier)
    if spec["backend"] == "kani":
        return run_kani_unit(name, spec, tier)
    elif spec["backend"] == "verus":
        from . import vx
        return vx.run_unit(name, spec, tier)
    raise ValueError(spec["backend"])


# --------------------------------------------------------------------------------------------
# replay


def build_replay():
    env = dict(os.environ)
    env["FALCON_RUST_VERIF_DIR"] = VERIF
    env["RUSTFLAGS"] = "--cfg falcon_rust_verif"
    env["CARGO_NET_OFFLINE"] = "true"
    lock_src = os.path.join(REPO, "Cargo.lock")
    lock_dst = os.path.join(VERIF, "replay", "Cargo.lock")
    if os.path.exists(lock_src) and not os.path.exists(lock_dst):
        import shutil
        shutil.copy(lock_src, lock_dst)
    with K.Lock("replay.lock"):
        p = subprocess.run(["cargo", "build", "--offline", "--target-dir", REPLAY_TARGET],
                           cwd=os.path.join(VERIF, "replay"), env=env, stdout=subprocess.PIPE,
                           stderr=subprocess.STDOUT, text=True)
    if p.returncode != 0:
        return None, p.stdout[-3000:]
    return os.path.join(REPLAY_TARGET, "debug", "falcon-verif-replay"), ""


def run_replay(argv, timeout=600):
    binp, err = build_replay()
    if not binp:
        return 2, "replay tool did not build:\n" + err
    try:
        p = subprocess.run([binp] + argv, stdout=subprocess.PIPE, stderr=subprocess.STDOUT,
                           text=True, timeout=timeout)
    except subprocess.TimeoutExpired:
        return 2, "replay timed out"
    return p.returncode, p.stdout.strip()


def replay_file(path):
    rf = json.load(open(path))
    cex = rf.get("counterexample")
    print("property=%s unit=%s obligation=%r location=%s" % (
        rf.get("property"), rf.get("unit"), rf.get("obligation"), rf.get("location")))
    if not cex:
        print("NO-INPUT: the verifier gave no counterexample for this obligation; the replay file"
              " carries the failed obligation and the verifier output only")
        print(rf.get("verifier_output", "")[-2000:])
        return 0
    rc, out = run_replay(cex["argv"])
    print(out)
    return rc


# --------------------------------------------------------------------------------------------
# property check


def match_known(known, prop, f):
    for k in known.get("findings", []):
        if k["property"] != prop:
            continue
        if k.get("unit") and k["unit"] != f["unit"]:
            continue
        if k.get("where_regex") and not re.search(k["where_regex"], f["where"]):
            continue
        if k.get("desc_regex") and not re.search(k["desc_regex"], f["desc"] + " @ " + f["loc"]):
            continue
        return k
    return None


def check_property(prop, tier, seed):
    t0 = time.time()
    P = U.PROPS[prop]
    unit_names = list(P["quick"]) + (list(P.get("thorough", [])) if tier == "thorough" else [])
    # units are independent: Verus units run concurrently, Kani units serialise on the cargo lock
    from concurrent.futures import ThreadPoolExecutor
    with ThreadPoolExecutor(max_workers=4) as ex:
        futs = [(u, ex.submit(run_unit, u, tier)) for u in unit_names]
        results = []
        for u, f in futs:
            r = f.result()
            results.append(r)
            print("unit %-12s %-6s obligations=%d discharged=%d failures=%d undecided=%d (%.1fs)" % (
                u, r["backend"], r["obligations"], r["discharged"], len(r["failures"]),
                len(r["undecided"]), r["wall_s"]), flush=True)

    # Witness production (not the deciding step): for units with a directed search, look for a
    # concrete failing input when a Verus obligation failed (Verus gives no counterexample) or
    # when the unit was undecided (lost anchor / unsupported construct).  Only a refutation that
    # replays on the real code is trusted; finding nothing changes nothing.
    for r in results:
        spec = U.UNITS[r["unit"]]
        need = [f for f in r["failures"] if not f.get("cex")]
        if "search" in spec and (need or r["undecided"]):
            rc, out = run_replay([spec["search"], str(seed)], timeout=900)
            m = re.search(r"WITNESS (.*?) \| argv=(\S+)", out)
            r.setdefault("search_log", []).append(out[-400:])
            if m:
                cex = {"argv": m.group(2).split(","), "found_by": "bounded directed search (%s)" % spec["search"],
                       "what": m.group(1)}
                mo = re.match(r"\[only:([\w,]+)\]", m.group(1))
                wonly = mo.group(1).split(",") if mo else None
                if need and (wonly is None or need[0].get("only") is None or set(wonly) & set(need[0]["only"])):
                    need[0]["cex"] = cex
                elif need:
                    pass
                else:
                    r["failures"].append({
                        "unit": r["unit"], "backend": "bounded-search", "where": spec["search"],
                        "kind": "bounded directed search (stand-in: the deductive check of this unit was UNDECIDED)",
                        "desc": "real code disagrees with the reference specification: " + m.group(1),
                        "loc": "", "output": "UNDECIDED reasons: " + " ; ".join(r["undecided"]) + "\n" + out[-1500:],
                        "cex": cex, "only": wonly})
                    if wonly is None or prop in wonly:
                        r["undecided_resolved_by_search"] = list(r["undecided"])
                        r["undecided"] = []

    # Cross-checks that are NOT the deciding step.  (a) each unit's directed search is run
    # proactively (quick: one seed; thorough: four): the real code against the executable reference
    # of the specification's algorithm — guards against a contract that is wrong in the same way as
    # the code; (b) the dependency models the Verus units assume (bit_vec::BitVec, itertools chunks,
    # div_mod_floor, ilog2) are compared with the real crates.  A disagreement is reported with its
    # concrete input; finding nothing proves nothing and is counted as nothing.
    cross = []
    _search_cache = {}
    if True:
        for r in results:
            spec = U.UNITS[r["unit"]]
            if "search" in spec and not r["failures"] and not r["undecided"]:
                # quick tier: one seed (a few seconds per unit); thorough: three further seeds
                for sd in ((seed,) if tier != "thorough" else (seed, seed + 1, seed + 2, seed + 3)):
                    if (spec["search"], sd) in _search_cache:
                        continue  # another unit of this property already ran this search
                    _search_cache[(spec["search"], sd)] = True
                    rc, out = run_replay([spec["search"], str(sd)], timeout=900)
                    m = re.search(r"WITNESS (.*?) \| argv=(\S+)", out)
                    cross.append({"unit": r["unit"], "cmd": "%s %d" % (spec["search"], sd), "kind": "bounded directed search against the reference algorithm",
                                  "result": "WITNESS" if m else out.strip()[-200:]})
                    if m:
                        r["failures"].append({
                            "unit": r["unit"], "backend": "bounded-search", "where": spec["search"],
                            "kind": "bounded directed search (cross-check of the thorough tier)",
                            "desc": "real code disagrees with the reference specification: " + m.group(1),
                            "loc": "", "output": out[-1500:],
                            "only": (lambda mo: mo.group(1).split(",") if mo else None)(re.match(r"\[only:([\w,]+)\]", m.group(1))),
                            "cex": {"argv": m.group(2).split(","), "found_by": "bounded directed search (%s)" % spec["search"], "what": m.group(1)}})
                        break
            for mc in (spec.get("models", []) if tier == "thorough" else []):
                for sd in (seed + 1, seed + 2):
                    rc, out = run_replay([mc, str(sd)], timeout=900)
                    ok = rc == 0 and "MODEL-OK" in out
                    cross.append({"unit": r["unit"], "cmd": "%s %d" % (mc, sd), "kind": "dependency model against the real crate",
                                  "result": out.strip()[-200:]})
                    if not ok:
                        r["undecided"].append("dependency model cross-check %s did not pass: %s" % (mc, out.strip()[-300:]))
                        break

    known = load_known()
    os.makedirs(REPLAY_DIR, exist_ok=True)
    violations, known_seen, undecided, elsewhere = [], [], [], []
    elsewhere_fns = set()
    n = 0
    known_count = 0
    for r in results:
        undecided += ["%s: %s" % (r["unit"], x) for x in r["undecided"]]
        for f in r["failures"]:
            if f.get("only") and prop not in f["only"]:
                elsewhere.append("%s: %s (stated for %s only)" % (r["unit"], f["desc"][:300], ",".join(f["only"])))
                elsewhere_fns.add((r["unit"], f["where"]))
                continue
            k = match_known(known, prop, f)
            if k:
                known_count += 1
                known_seen.append(k["what"])
                print("KNOWN-FINDING: property=%s %s" % (prop, k["what"]))
                continue
            n += 1
            path = os.path.join(REPLAY_DIR, "%s-%d.json" % (prop, n))
            rf = {"property": prop, "unit": f["unit"], "backend": f["backend"],
                  "function_or_harness": f["where"], "obligation_kind": f["kind"],
                  "obligation": f["desc"], "location": f["loc"],
                  "verifier_output": f["output"], "counterexample": None}
            tail = " no-failing-input-found"
            cex = f.get("cex")
            if cex and cex.get("argv") is None and cex.get("harness"):
                cex["argv"] = ["harness", cex["harness"], ",".join(cex["vals"])]
            if cex:
                rc, out = run_replay(cex["argv"])
                cex["replayed_on_real_code"] = out
                rf["counterexample"] = cex
                if rc == 1 and "REPRODUCED" in out:
                    tail = ""
                else:
                    # a Kani counterexample that does not reproduce natively is still carried
                    # by the replay file, but the line says so.
                    tail = " no-failing-input-found"
            json.dump(rf, open(path, "w"), indent=1)
            violations.append((path, tail, f))

    obligations = sum(r["obligations"] for r in results)
    discharged = sum(r["discharged"] for r in results)
    ev = {
        "property_id": prop,
        "tier": tier,
        "seed": seed,
        "level": P["level"],
        "coverage": {
            "obligations": obligations,
            "discharged": discharged,
            "checker_cmd": " ; ".join(c for r in results for c in r["cmds"])[:6000],
            "trusted_base": sorted(set(t for r in results for t in r["trusted"])),
            "explanation": P.get("explanation", ""),
            "units": [{
                "unit": r["unit"], "backend": r["backend"],
                "functions_under_contract": r["functions"],
                "obligations": r["obligations"], "discharged": r["discharged"],
                "solver_time_s": round(r["solver_time_s"], 2), "wall_s": round(r["wall_s"], 2),
                "completeness": r.get("notes", ""),
                "bounded": r["bounded"],
                "rewrites_applied": r.get("rewrites", []),
                "dropped": r.get("dropped", []),
                "canaries_failed_as_expected": r.get("canaries", None),
            } for r in results],
            "samples": [s for r in results for s in r["samples"]][:40],
            "bounded": [b for r in results for b in r["bounded"]],
            "undecided_clauses": P.get("undecided_clauses", []),
            "known_findings_seen": known_seen,
            "undecided_this_run": undecided,
            "cross_checks": cross,
            "failures_attributed_to_other_properties": elsewhere,
            "exhaustive": False,
        },
        "assumptions": sorted(set(P.get("assumptions", []) +
                                  [t for r in results for t in r["trusted"]])),
        "wall_s": round(time.time() - t0, 2),
        "violations": len(violations),
    }
    os.makedirs(EVID, exist_ok=True)
    json.dump(ev, open(os.path.join(EVID, prop + ".json"), "w"), indent=1)

    for path, tail, f in violations:
        print("  failed obligation: [%s] %s :: %s @ %s" % (f["unit"], f["where"], f["desc"], f["loc"]))
        print("VIOLATION property=%s replay=%s%s" % (prop, path, tail))
    if violations:
        return 1
    if undecided:
        for u in undecided:
            print("UNDECIDED property=%s reason=%s" % (prop, u[:600]))
        return 2
    # a failed clause stated for another property is no violation of this one, but the rest of that
    # function was then checked under the failed clause as an assumption: not a pass either (exit 2)
    if obligations == 0 or (obligations != discharged and known_count == 0):
        print("UNDECIDED property=%s reason=obligation count %d, discharged %d%s" % (
            prop, obligations, discharged,
            (" (failed obligations stated for other properties only: %s)" % " | ".join(elsewhere)[:500]) if elsewhere else ""))
        return 2
    print("OK property=%s tier=%s obligations=%d discharged=%d wall=%.1fs" % (
        prop, tier, obligations, discharged, time.time() - t0))
    return 0
