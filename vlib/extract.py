"""Mechanical extraction of real function text from /repo source files.

mask(src)      -> same-length string with comments / string / char literals blanked
find_block()   -> brace matching on the masked text
find_fn()      -> (start_of_item, sig_start, body_open, body_close) of `fn name`
loops()        -> loop headers (for / while / loop) in source order inside a text
"""
import re


class ExtractError(Exception):
    pass


def mask(src):
    out = list(src)
    i, n = 0, len(src)

    def blank(a, b):
        for k in range(a, b):
            if out[k] != "\n":
                out[k] = " "

    while i < n:
        c = src[i]
        if src.startswith("//", i):
            j = src.find("\n", i)
            j = n if j < 0 else j
            blank(i, j)
            i = j
        elif src.startswith("/*", i):
            depth, j = 1, i + 2
            while j < n and depth:
                if src.startswith("/*", j):
                    depth += 1
                    j += 2
                elif src.startswith("*/", j):
                    depth -= 1
                    j += 2
                else:
                    j += 1
            blank(i, j)
            i = j
        elif c == '"':
            j = i + 1
            while j < n and src[j] != '"':
                j += 2 if src[j] == "\\" else 1
            blank(i + 1, j)
            i = j + 1
        elif c == "r" and re.match(r'r#*"', src[i:i + 8]) and (i == 0 or not (src[i - 1].isalnum() or src[i - 1] == "_")):
            m = re.match(r'r(#*)"', src[i:])
            close = '"' + m.group(1)
            j = src.find(close, i + len(m.group(0)))
            j = n if j < 0 else j
            blank(i + len(m.group(0)), j)
            i = j + len(close)
        elif c == "'":
            # char literal or lifetime
            m = re.match(r"'(\\.[^']*|[^\\'])'", src[i:])
            if m:
                blank(i + 1, i + len(m.group(0)) - 1)
                i += len(m.group(0))
            else:
                i += 1
        else:
            i += 1
    return "".join(out)


def match_brace(masked, open_pos):
    assert masked[open_pos] == "{", masked[open_pos:open_pos + 20]
    depth = 0
    for k in range(open_pos, len(masked)):
        ch = masked[k]
        if ch == "{":
            depth += 1
        elif ch == "}":
            depth -= 1
            if depth == 0:
                return k
    raise ExtractError("unbalanced braces")


def find_scope(src, masked, header_regex):
    """Span (open, close) of the block whose header matches header_regex (on masked text)."""
    ms = list(re.finditer(header_regex, masked))
    if len(ms) != 1:
        raise ExtractError("scope header %r matched %d times" % (header_regex, len(ms)))
    o = masked.find("{", ms[0].end() - 1)
    if o < 0:
        raise ExtractError("no block after scope header %r" % header_regex)
    return o, match_brace(masked, o)


def find_fn(src, name, within=None, masked=None):
    masked = masked or mask(src)
    lo, hi = 0, len(src)
    if within:
        lo, hi = find_scope(src, masked, within)
    pat = re.compile(r"\bfn\s+" + re.escape(name) + r"\b")
    ms = [m for m in pat.finditer(masked, lo, hi)]
    # exclude matches inside #[cfg(test)] mod test { ... } and the verif hook module
    ms = [m for m in ms if not _in_test_mod(masked, m.start())]
    if len(ms) != 1:
        raise ExtractError("fn %s%s: %d definitions found" % (
            name, " within " + within if within else "", len(ms)))
    m = ms[0]
    body_open = masked.find("{", m.end())
    semi = masked.find(";", m.end())
    if body_open < 0 or (0 <= semi < body_open):
        raise ExtractError("fn %s has no body" % name)
    body_close = match_brace(masked, body_open)
    # item start: back up over qualifiers on the same logical item (pub, pub(crate), const, ...)
    line_start = masked.rfind("\n", 0, m.start()) + 1
    return {"item_start": line_start, "fn_kw": m.start(), "body_open": body_open,
            "body_close": body_close, "line": src.count("\n", 0, m.start()) + 1}


_TEST_SPANS_CACHE = {}


def _test_spans(masked):
    key = id(masked)
    if key in _TEST_SPANS_CACHE:
        return _TEST_SPANS_CACHE[key]
    spans = []
    for m in re.finditer(r"#\[cfg\((?:test|falcon_rust_verif)\)\]", masked):
        mm = re.compile(r"(?:\s*#\[[^\]]*\])*\s*(?:pub(?:\([a-z]+\))?\s+)?mod\s+\w+\s*\{").match(masked, m.end())
        if mm:
            o = mm.end() - 1
            spans.append((o, match_brace(masked, o)))
    _TEST_SPANS_CACHE.clear()
    _TEST_SPANS_CACHE[key] = spans
    return spans


def _in_test_mod(masked, pos):
    return any(a <= pos <= b for a, b in _test_spans(masked))


def loops(text):
    """Loop headers in `text` in source order: list of (kw_start, brace_open, kind)."""
    masked = mask(text)
    res = []
    for m in re.finditer(r"(?<![\w.])(for|while|loop)\b", masked):
        kw = m.group(1)
        # `for` inside `impl X for Y` / HRTB is not a loop; require statement position:
        # previous non-space char is one of ; { } or start, or a label `'a:`
        k = m.start() - 1
        while k >= 0 and masked[k] in " \t\n":
            k -= 1
        if k >= 0 and masked[k] not in ";{}:=":
            continue
        if kw == "for" and not re.match(r"for\s+[^;{}]*?\bin\b", masked[m.start():]):
            continue
        o = _header_open(masked, m.end())
        if o is None:
            continue
        res.append((m.start(), o, kw))
    return res


def _header_open(masked, pos):
    """First `{` at bracket depth 0 after pos."""
    depth = 0
    for k in range(pos, len(masked)):
        ch = masked[k]
        if ch in "([":
            depth += 1
        elif ch in ")]":
            depth -= 1
        elif ch == "{" and depth == 0:
            return k
        elif ch == ";" and depth == 0:
            return None
    return None
