"""Engine KH: run Kani harnesses on the real crate in /repo (in place), parse results.

Harness bodies live in /verif/hooks/<module>.rs and are compiled into the crate through the
cfg(falcon_rust_verif) include points.  A group of harnesses is run with one `cargo kani`
invocation (terse, parallel); a failing harness is re-run alone with full output and concrete
playback to obtain the failed checks and the counterexample bytes.
"""
import fcntl
import json
import os
import re
import subprocess
import time

REPO = os.environ.get("VERIF_REPO", "/repo")
VERIF = os.path.dirname(os.path.dirname(os.path.abspath(__file__)))
# one target directory per source tree: artifacts built from a scratch copy (VERIF_REPO) must never be
# taken for those of /repo (a shared directory produced stale verdicts once, during a mutation sweep)
import hashlib as _hl
TARGET = os.path.join(VERIF, "build", "kani" if REPO == "/repo" else "kani-" + _hl.sha1(REPO.encode()).hexdigest()[:8])


def _env():
    e = dict(os.environ)
    e["CARGO_NET_OFFLINE"] = "true"
    e["FALCON_RUST_VERIF_DIR"] = VERIF
    e["RUSTFLAGS"] = "--cfg falcon_rust_verif"
    return e


class Lock:
    def __init__(self, name):
        os.makedirs(os.path.join(VERIF, "build"), exist_ok=True)
        self.path = os.path.join(VERIF, "build", name)

    def __enter__(self):
        self.f = open(self.path, "w")
        fcntl.flock(self.f, fcntl.LOCK_EX)
        return self

    def __exit__(self, *a):
        fcntl.flock(self.f, fcntl.LOCK_UN)
        self.f.close()


def _kill_tree(p):
    try:
        os.killpg(os.getpgid(p.pid), 9)
    except Exception:
        pass


def _run(cmd, timeout):
    t0 = time.time()
    p = subprocess.Popen(cmd, cwd=REPO, env=_env(), stdout=subprocess.PIPE,
                         stderr=subprocess.STDOUT, text=True, start_new_session=True)
    try:
        out, _ = p.communicate(timeout=timeout)
        to = False
    except subprocess.TimeoutExpired:
        _kill_tree(p)
        out, _ = p.communicate()
        to = True
    return out, p.returncode, to, time.time() - t0


def base_cmd(extra_flags):
    return ["cargo", "kani", "-p", "falcon-rust", "--target-dir", TARGET] + list(extra_flags)


def parse_terse(out):
    """-> {harness_fullname: {status, checks, failed, covers_sat, covers_total, time}}"""
    res = {}
    cur = {}  # thread -> harness
    lines = out.splitlines()
    i = 0
    th = None
    block_owner = None
    for ln in lines:
        m = re.match(r"Thread (\d+): Checking harness (\S+?)\.\.\.", ln)
        if m:
            cur[m.group(1)] = m.group(2)
            res.setdefault(m.group(2), {"status": "UNKNOWN", "checks": 0, "failed": 0,
                                        "covers_sat": 0, "covers_total": 0, "time": 0.0})
            continue
        m = re.match(r"Thread (\d+):\s*$", ln)
        if m:
            block_owner = cur.get(m.group(1))
            continue
        m = re.match(r"Checking harness (\S+?)\.\.\.", ln)
        if m:  # non-parallel mode
            block_owner = m.group(1)
            res.setdefault(block_owner, {"status": "UNKNOWN", "checks": 0, "failed": 0,
                                         "covers_sat": 0, "covers_total": 0, "time": 0.0})
            continue
        if block_owner is None:
            continue
        r = res[block_owner]
        m = re.match(r"\s*\*\* (\d+) of (\d+) failed", ln)
        if m:
            r["failed"], r["checks"] = int(m.group(1)), int(m.group(2))
            continue
        m = re.match(r"\s*\*\* (\d+) of (\d+) cover properties satisfied", ln)
        if m:
            r["covers_sat"], r["covers_total"] = int(m.group(1)), int(m.group(2))
            continue
        m = re.match(r"VERIFICATION:- (\w+)", ln)
        if m:
            r["status"] = m.group(1)
            continue
        m = re.match(r"Verification Time: ([0-9.]+)s", ln)
        if m:
            r["time"] = float(m.group(1))
            continue
    return res


def parse_failed_checks(out):
    """Failed Checks blocks of a full (non-terse) run."""
    fails = []
    lines = out.splitlines()
    for i, ln in enumerate(lines):
        m = re.match(r"Failed Checks: (.*)", ln)
        if m:
            loc = ""
            if i + 1 < len(lines):
                m2 = re.match(r'\s*File: "([^"]+)", line (\d+), in (\S+)', lines[i + 1])
                if m2:
                    loc = "%s:%s in %s" % (m2.group(1), m2.group(2), m2.group(3))
            fails.append({"desc": m.group(1).strip().strip('"'), "loc": loc})
    return fails


def parse_playback(out):
    """-> list of {check, vals:[hex,...], comments:[...]} from --concrete-playback=print."""
    tests = []
    for m in re.finditer(r"/// Check for `(\w+)`: \"+(.*?)\"+\s*\n#\[test\]\nfn (\w+)\(\) \{\n"
                         r"\s*let concrete_vals: Vec<Vec<u8>> = vec!\[(.*?)\n\s*\];", out, re.S):
        kind, desc, tname, body = m.groups()
        vals, comments = [], []
        for ln in body.splitlines():
            ln = ln.strip()
            if ln.startswith("//"):
                comments.append(ln[2:].strip())
            mm = re.match(r"vec!\[([0-9, ]*)\],?", ln)
            if mm:
                nums = [int(x) for x in mm.group(1).replace(" ", "").split(",") if x != ""]
                vals.append("".join("%02x" % n for n in nums))
        tests.append({"kind": kind, "check": desc, "vals": vals, "values_decoded": comments})
    return tests


def run_group(harnesses, extra_flags=(), jobs=8, timeout=1800, per_harness_floor=None):
    """harnesses: list of fully qualified names.  Returns dict(results=..., raw_tail, cmd, wall)."""
    if not harnesses:
        return {"results": {}, "cmd": "", "wall": 0.0, "timeout": False, "build_error": None}
    cmd = base_cmd(extra_flags)
    for h in harnesses:
        cmd += ["--harness", h]
    cmd += ["--exact", "-j", str(jobs), "--output-format=terse"]
    with Lock("kani.lock"):
        out, rc, to, wall = _run(cmd, timeout)
    res = parse_terse(out)
    build_error = None
    if not res and not to:
        build_error = out[-4000:]
    for h in harnesses:
        if h not in res:
            res[h] = {"status": "TIMEOUT" if to else "MISSING", "checks": 0, "failed": 0,
                      "covers_sat": 0, "covers_total": 0, "time": 0.0}
        elif res[h]["status"] == "UNKNOWN":
            res[h]["status"] = "TIMEOUT" if to else "UNKNOWN"
    return {"results": res, "cmd": " ".join(cmd), "wall": wall, "timeout": to,
            "build_error": build_error, "raw_tail": out[-3000:]}


def diagnose(harness, extra_flags=(), timeout=1800):
    """Re-run one failing harness with full output + concrete playback."""
    cmd = base_cmd(extra_flags) + ["--harness", harness, "--exact", "-Z", "concrete-playback",
                                   "--concrete-playback=print"]
    with Lock("kani.lock"):
        out, rc, to, wall = _run(cmd, timeout)
    fails = parse_failed_checks(out)
    tests = parse_playback(out)
    # keep only playback tests of failing (non-cover) checks
    cex = [t for t in tests if t["kind"] != "cover"]
    # a compact verifier output: summary part
    k = out.find("SUMMARY:")
    summary = out[k:k + 6000] if k >= 0 else out[-6000:]
    return {"failed_checks": fails, "counterexamples": cex, "summary": summary,
            "cmd": " ".join(cmd), "timeout": to, "wall": wall}
