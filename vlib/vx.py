"""Engine VX: Verus on mechanically extracted real code.

A unit is described by a template contracts/<unit>.vc: a Verus source file in which
`//@fn ... //@end` blocks are holes.  On every run each hole is filled with the text of the named
function as it is in /repo *now*, transformed only by the catalogued rewrite rules (vlib/rules.py)
the block names, with the block's requires/ensures, loop invariants and proof blocks spliced in.
Everything outside the holes (spec functions, lemmas, dependency models) is copied verbatim.
"""
import json
import os
import re
import subprocess
import time
from concurrent.futures import ThreadPoolExecutor

from . import extract as X
from . import rules as R

VERIF = os.path.dirname(os.path.dirname(os.path.abspath(__file__)))
REPO = os.environ.get("VERIF_REPO", "/repo")
SRC = os.path.join(REPO, "falcon-rust", "src")
BUILD = os.path.join(VERIF, "build", "vx")

VERIFICATION_ERRORS = [
    "postcondition not satisfied", "precondition not satisfied", "precondition not met", "assertion failed",
    "invariant not satisfied", "possible arithmetic underflow/overflow",
    "possible division by zero", "decreases not satisfied", "possible bit shift",
    "loop invariant", "assertion failure", "unreachable", "failed this postcondition",
    "could not prove termination", "cannot show invariant", "possible truncation",
    "recommendation not met",
]
ASSUMPTION_PATTERNS = [r"\bassume\s*\(", r"\badmit\s*\(", r"external_body", r"assume_specification",
                       r"#\[verifier::external", r"exec_allows_no_decreases_clause",
                       r"\baxiom\b"]


class Undecided(Exception):
    pass


# --------------------------------------------------------------------------------------------
# template parsing


def parse_template(path):
    """-> list of items: ('raw', text) | ('fn', dict)"""
    items = []
    cur = None
    sec = None
    raw = []
    def expand(pth, depth=0):
        out = []
        for ln in open(pth).read().split("\n"):
            st = ln.strip()
            if st.startswith("//@include "):
                if depth > 5:
                    raise Undecided("include depth")
                out += expand(os.path.join(VERIF, st.split()[1]), depth + 1)
            else:
                out.append(ln)
        return out

    for ln in expand(path):
        s = ln.strip()
        if s.startswith("//@const "):
            # //@const <file> <NAME> : the real `const NAME: T = EXPR;` item, visibility stripped
            toks = s.split()
            src = open(os.path.join(SRC, toks[1])).read()
            masked = X.mask(src)
            ms = [m for m in re.finditer(r"(?:pub(?:\([a-z]+\))?\s+)?const\s+%s\s*:[^;]*;" % re.escape(toks[2]), masked)
                  if not X._in_test_mod(masked, m.start())]
            if len(ms) != 1:
                raise Undecided("lost anchor: const %s in %s found %d times" % (toks[2], toks[1], len(ms)))
            item = re.sub(r"^pub(?:\([a-z]+\))?\s+", "", src[ms[0].start():ms[0].end()])
            (raw if cur is None else (_ for _ in ()).throw(Undecided("//@const inside //@fn"))).append("pub " + item)
            continue
        if s.startswith("//@item "):
            # //@item <file> <struct|enum> <Name> : the real item text, attributes dropped (R11)
            toks = s.split()
            src = open(os.path.join(SRC, toks[1])).read()
            masked = X.mask(src)
            ms = [m for m in re.finditer(r"(?:pub(?:\([a-z]+\))?\s+)?%s\s+%s\b[^{;]*[{;]" % (toks[2], re.escape(toks[3])), masked)
                  if not X._in_test_mod(masked, m.start())]
            if len(ms) != 1:
                raise Undecided("lost anchor: %s %s in %s found %d times" % (toks[2], toks[3], toks[1], len(ms)))
            m0 = ms[0]
            end = m0.end()
            if masked[end - 1] == "{":
                end = X.match_brace(masked, end - 1) + 1
            item = src[m0.start():end]
            item = re.sub(r"pub\([a-z]+\)\s+", "pub ", item)
            item = re.sub(r"(?m)^\s*///.*\n", "", item)
            if cur is not None:
                raise Undecided("//@item inside //@fn")
            raw.append(item)
            continue
        if s.startswith("//@fn "):
            if cur is not None:
                raise Undecided("%s: nested //@fn" % path)
            items.append(("raw", "\n".join(raw)))
            raw = []
            toks = s[len("//@fn "):].split()
            cur = {"file": toks[0], "name": toks[1], "within": None, "as": None, "rules": [],
                   "rewrites": [], "ret": None, "spec": [], "loops": {}, "before": [],
                   "after": [], "tags": [], "header": None, "canary": True, "isolation": False}
            for t in toks[2:]:
                k, _, v = t.partition("=")
                if k == "as":
                    cur["as"] = v
                elif k == "canary":
                    cur["canary"] = v != "off"
                elif k == "isolation":
                    cur["isolation"] = v == "on"
                else:
                    raise Undecided("unknown //@fn option " + t)
            sec = None
            continue
        if cur is None:
            raw.append(ln)
            continue
        if s.startswith("//@within "):
            cur["within"] = s[len("//@within "):].strip()
        elif s.startswith("//@rule? "):
            # optional rule: applied where its pattern occurs, skipped (and logged) where it does not
            cur["rules"].append("?" + s[len("//@rule? "):].strip())
        elif s.startswith("//@rule "):
            cur["rules"].append(s[len("//@rule "):].strip())
        elif s.startswith("//@rewrite "):
            m = re.match(r"//@rewrite (\S+) /(.*)/ => (.*)$", s)
            if not m:
                raise Undecided("bad //@rewrite: " + s)
            cur["rewrites"].append((m.group(1), m.group(2), m.group(3)))
        elif s.startswith("//@ret "):
            cur["ret"] = s.split()[1]
        elif s.startswith("//@tags "):
            cur["tags"] = s.split()[1:]
        elif s.startswith("//@header "):
            cur["header"] = s[len("//@header "):]
        elif s == "//@spec":
            sec = cur["spec"]
        elif s.startswith("//@endloop "):
            k = int(s.split()[1])
            sec = cur.setdefault("endloops", {}).setdefault(k, [])
        elif s.startswith("//@loopstart "):
            # lines placed at the very beginning of the body of loop k (facts that must not depend on
            # how the statements of the body are shaped)
            k = int(s.split()[1])
            sec = cur.setdefault("loopstarts", {}).setdefault(k, [])
        elif s.startswith("//@loop "):
            k = int(s.split()[1])
            sec = cur["loops"].setdefault(k, [])
        elif s.startswith("//@before") or s.startswith("//@after"):
            m = re.match(r"//@(before|after)(\?)?(?:\{([<>]?L\d+)\})?(?:\[(\d+)/(\d+)\])? /(.*)/$", s)
            if not m:
                raise Undecided("bad anchor: " + s)
            sec = []
            kind = m.group(1)
            k, tot = (int(m.group(4)), int(m.group(5))) if m.group(4) else (1, 1)
            cur[kind].append({"rx": m.group(6), "k": k, "tot": tot, "lines": sec,
                              "optional": bool(m.group(2)), "scope": m.group(3)})
        elif s == "//@end":
            items.append(("fn", cur))
            cur, sec = None, None
        elif s.startswith("//@"):
            raise Undecided("unknown directive: " + s)
        else:
            if sec is None:
                if s:
                    raise Undecided("text outside a section in //@fn %s: %s" % (cur["name"], s))
            else:
                sec.append(ln)
    if cur is not None:
        raise Undecided("unterminated //@fn")
    items.append(("raw", "\n".join(raw)))
    return items


# --------------------------------------------------------------------------------------------
# hole filling


def fill_fn(spec, canary, canary_ids, log):
    path = os.path.join(SRC, spec["file"])
    src = open(path).read()
    try:
        loc = X.find_fn(src, spec["name"], spec["within"])
    except X.ExtractError as e:
        raise Undecided("lost anchor: %s" % e)
    # Name census: the contract is about *the* function of this name that callers reach.  A further
    # definition of the same name anywhere in the crate (an inherent method shadowing a trait method,
    # a trait-impl override, a same-named helper in another module) may change what runs without
    # changing the extracted text: undecided until the census (contracts/fn_census.json, written by
    # tools_census.py on a tree where the resolution was checked by hand) is renewed.
    census_path = os.path.join(VERIF, "contracts", "fn_census.json")
    if os.path.exists(census_path):
        import glob as _glob
        want = json.load(open(census_path)).get(spec["name"])
        have = {}
        for f2 in sorted(_glob.glob(os.path.join(SRC, "*.rs"))):
            m2 = X.mask(open(f2).read())
            c = len([m for m in re.finditer(r"\bfn\s+%s\b" % re.escape(spec["name"]), m2) if not X._in_test_mod(m2, m.start())])
            if c:
                have[os.path.basename(f2)] = c
        if want is None:
            raise Undecided("fn %s is not in contracts/fn_census.json (run tools_census.py on a checked tree)" % spec["name"])
        extra = {f: c for f, c in have.items() if c > want.get(f, 0)}
        if extra and not os.environ.get("VERIF_CENSUS_WRITE"):
            log.setdefault("dispatch", []).append("new definition(s) of fn %s: %s" % (spec["name"], extra))
            log["census_extra"] = True
    # Trait dispatch: a default method of `trait T`, verified at Self := X, is the code that runs only
    # if no `impl T for X` overrides it.  If one does, the override is extracted instead (the contract
    # stays the same; hints written for the default body will usually no longer fit -> UNDECIDED).
    mt = re.search(r"\btrait\s+(\w+)", spec["within"] or "")
    selfty = [r.split(" ", 1)[1].strip() for r in spec["rules"] if r.lstrip("?").startswith("Self ")]
    if mt and selfty:
        import glob
        ty = re.escape(selfty[0].split("<")[0])
        for f2 in sorted(glob.glob(os.path.join(SRC, "*.rs"))):
            s2 = open(f2).read()
            within2 = r"impl(?:<[^>]*>)?\s+%s\s+for\s+%s\b" % (re.escape(mt.group(1)), ty)
            if not re.search(within2, X.mask(s2)):
                continue
            try:
                loc2 = X.find_fn(s2, spec["name"], within2)
            except X.ExtractError:
                continue
            src, loc, path = s2, loc2, f2
            spec = dict(spec, file=os.path.basename(f2))
            log.setdefault("dispatch", []).append("fn %s: `impl %s for %s` in %s overrides the trait's default method; the override is the verified text"
                                                  % (spec["name"], mt.group(1), selfty[0], os.path.basename(f2)))
            log["census_extra"] = False
            break
    if log.pop("census_extra", False):
        raise Undecided("a further definition of fn %s appeared in the crate (%s): which one callers reach is not established"
                        % (spec["name"], "; ".join(log.get("dispatch", [])[-1:])))
    sig = src[loc["fn_kw"]:loc["body_open"]]
    body = src[loc["body_open"]:loc["body_close"] + 1]
    orig_body = body
    # 1. catalogued rewrites -------------------------------------------------------------
    applied = []
    for rule in spec["rules"]:
        optional = rule.startswith("?")
        rule = rule.lstrip("?")
        name, _, arg = rule.partition(" ")
        fn = R.RULES.get(name)
        if fn is None:
            raise Undecided("rule %s not in catalogue" % name)
        sig2, body2, count = fn(sig, body, arg.strip())
        if count == 0:
            if optional:
                continue
            raise Undecided("rule %s did not apply in fn %s (source changed shape)" % (rule, spec["name"]))
        sig, body = sig2, body2
        applied.append("%s x%d" % (rule, count))
    for (rid, rx, rep) in spec["rewrites"]:
        if rid.split(":")[0] not in R.CATALOGUE:
            raise Undecided("rewrite tagged %s is not a catalogue rule" % rid)
        scope = "body"
        if rid.endswith(":sig"):
            scope = "sig"
        try:
            if scope == "sig":
                sig, count = re.subn(rx, rep, sig, flags=re.S)
            else:
                body, count = re.subn(rx, rep, body, flags=re.S)
        except re.error as e:
            raise Undecided("bad regex in rewrite %s: %s" % (rid, e))
        if count == 0:
            raise Undecided("rewrite %s /%s/ did not apply in fn %s (source changed shape)"
                            % (rid, rx, spec["name"]))
        applied.append("%s x%d" % (rid, count))
    if spec.get("isolation"):
        tpl_text = "\n".join(spec["spec"] + [l for v in spec["loops"].values() for l in v]
                             + [l for v in spec.get("endloops", {}).values() for l in v]
                             + [l for v in spec.get("loopstarts", {}).values() for l in v]
                             + [l for a in spec["before"] + spec["after"] for l in a["lines"]]
                             + [a["rx"] for a in spec["before"] + spec["after"]])
        body, inl = R.inline_fresh_lets(sig, body, set(re.findall(r"\b[A-Za-z_]\w*\b", tpl_text)))
        if inl:
            applied.append("R22 inlined: " + ", ".join(inl))
    log["rewrites"].append({"fn": spec["name"], "applied": applied})
    # 2. signature: strip visibility/const, rename, name the result ----------------------------
    sig = re.sub(r"^fn\s+" + re.escape(spec["name"]), "fn " + (spec["as"] or spec["name"]), sig)
    sig = sig.rstrip()
    if spec["ret"]:
        m = re.search(r"->\s*(.+?)\s*$", sig, re.S)
        if not m:
            raise Undecided("fn %s has no return type to name" % spec["name"])
        sig = sig[:m.start()] + "-> (%s: %s)" % (spec["ret"], m.group(1))
    # 3. splice loop invariants (ordinals in the rewritten body, source order) --------------------
    lps = X.loops(body)
    inserts = []  # (pos, text)
    for k, lines in spec["loops"].items():
        if k < 1 or k > len(lps):
            raise Undecided("lost anchor: fn %s has %d loops, contract names loop %d"
                            % (spec["name"], len(lps), k))
        inserts.append((lps[k - 1][1], "\n" + "\n".join(lines) + "\n"))
    for k, lines in spec.get("endloops", {}).items():
        if k < 1 or k > len(lps):
            raise Undecided("lost anchor: fn %s has %d loops, contract names endloop %d"
                            % (spec["name"], len(lps), k))
        close = X.match_brace(X.mask(body), lps[k - 1][1])
        inserts.append((close, "\n" + "\n".join(lines) + "\n"))
    for k, lines in spec.get("loopstarts", {}).items():
        if k < 1 or k > len(lps):
            raise Undecided("lost anchor: fn %s has %d loops, contract names loopstart %d"
                            % (spec["name"], len(lps), k))
        # just after the opening brace; sorts after the invariants spliced at the same brace
        inserts.append((lps[k - 1][1] + 1, "\n" + "\n".join(lines) + "\n"))
    # 4. proof blocks at statement anchors ----------------------------------------------------
    masked = X.mask(body)

    def scope_span(sc):
        if not sc:
            return 0, len(body)
        m = re.match(r"([<>]?)L(\d+)", sc)
        k = int(m.group(2))
        if k < 1 or k > len(lps):
            raise Undecided("lost anchor: scope %s but fn %s has %d loops" % (sc, spec["name"], len(lps)))
        kw, o, _ = lps[k - 1]
        c = X.match_brace(masked, o)
        if m.group(1) == ">":
            return c + 1, len(body)
        if m.group(1) == "<":
            return 0, kw
        return o, c

    for kind in ("before", "after"):
        for a in spec[kind]:
            lo, hi = scope_span(a["scope"])
            ms = [m for m in re.finditer(a["rx"], masked) if lo <= m.start() < hi]
            if len(ms) != a["tot"]:
                if a["optional"] and len(ms) == 0:
                    log.setdefault("skipped_hints", []).append(
                        "fn %s: optional anchor /%s/ in %s absent, hint skipped" % (spec["name"], a["rx"], a["scope"]))
                    continue
                raise Undecided("lost anchor: /%s/ matched %d times in fn %s scope %s (expected %d)"
                                % (a["rx"], len(ms), spec["name"], a["scope"], a["tot"]))
            m = ms[a["k"] - 1]
            if kind == "before":
                pos = body.rfind("\n", 0, m.start()) + 1
            else:
                pos = body.find("\n", m.end())
                pos = len(body) - 1 if pos < 0 else pos + 1
            inserts.append((pos, "\n".join(a["lines"]) + "\n"))
    # 5. canaries ----------------------------------------------------------------------------------
    if canary and spec["canary"]:
        cid = len(canary_ids)
        canary_ids.append({"id": cid, "fn": spec["name"], "at": "entry"})
        inserts.append((1, "\nproof { if vx_canary(%d) { assert(false); } } // VX-CANARY %d\n" % (cid, cid)))
        for (kw, o, kind) in lps:
            # only top-level loops of the function body (depth 1)
            if body[:kw].count("{") - body[:kw].count("}") != 1:
                continue
            close = X.match_brace(masked, o)
            if kind == "loop" and re.match(r"^\s*\}\s*$", masked[close + 1:]):
                continue  # an infinite loop in tail position: nothing after it is reachable
            cid = len(canary_ids)
            canary_ids.append({"id": cid, "fn": spec["name"], "at": "after loop @%d" % kw})
            inserts.append((close + 1, "\nproof { if vx_canary(%d) { assert(false); } } // VX-CANARY %d\n" % (cid, cid)))
    for pos, text in sorted(inserts, key=lambda t: -t[0]):
        body = body[:pos] + text + body[pos:]
    header = (spec["header"] + "\n") if spec["header"] else ""
    if spec.get("isolation", False) is False:
        # loops are verified in the context of the enclosing function: a fact established before a
        # loop about an unmodified local need not be repeated as an invariant, so hoisting a constant
        # sub-expression in front of a loop does not break the proof
        header = "#[verifier::loop_isolation(false)]\n" + header
    spec_text = "\n".join(spec["spec"])
    text = "%s%s\n%s\n%s\n" % (header, sig, spec_text, body)
    return text, {"fn": spec["name"], "file": spec["file"], "line": loc["line"],
                  "orig": src[loc["fn_kw"]:loc["body_close"] + 1]}


def generate(unit, tpl_path, canary=False):
    items = parse_template(tpl_path)
    log = {"rewrites": []}
    out_lines = 0
    chunks = []
    smap = []  # (gen_line_start, gen_line_end, info)
    canary_ids = []
    for kind, val in items:
        if kind == "raw":
            chunks.append(val + "\n")
        else:
            text, info = fill_fn(val, canary, canary_ids, log)
            start = sum(c.count("\n") for c in chunks) + 1
            chunks.append(text)
            end = sum(c.count("\n") for c in chunks)
            smap.append((start, end, info))
    text = "".join(chunks)
    if canary:
        text = text.replace("//@canary-decl", "pub uninterp spec fn vx_canary(i: int) -> bool;")
    os.makedirs(BUILD, exist_ok=True)
    gen = os.path.join(BUILD, unit + ("-canary" if canary else "") + ".rs")
    open(gen, "w").write(text)
    return gen, smap, log, canary_ids, items


# --------------------------------------------------------------------------------------------
# running Verus


def run_verus(gen, timeout=1800, rlimit=None, threads=8):
    cmd = ["verus", gen, "--output-json", "--time-expanded", "--multiple-errors", "50",
           "--error-format=json", "--num-threads", str(threads)]
    if rlimit:
        cmd += ["--rlimit", str(rlimit)]
    t0 = time.time()
    try:
        p = subprocess.run(cmd, cwd=BUILD, stdout=subprocess.PIPE, stderr=subprocess.PIPE,
                           text=True, timeout=timeout)
    except subprocess.TimeoutExpired:
        return {"cmd": " ".join(cmd), "timeout": True, "wall": time.time() - t0, "diags": [],
                "json": None, "stderr": ""}
    diags = []
    for ln in p.stderr.splitlines():
        ln = ln.strip()
        if ln.startswith("{"):
            try:
                diags.append(json.loads(ln))
            except Exception:
                pass
    js = None
    try:
        js = json.loads(p.stdout)
    except Exception:
        pass
    return {"cmd": " ".join(cmd), "timeout": False, "wall": time.time() - t0, "diags": diags,
            "json": js, "stderr": p.stderr[-4000:], "rc": p.returncode}


def classify(diags):
    verr, other = [], []
    for d in diags:
        if d.get("level") != "error":
            continue
        msg = d.get("message", "")
        if msg.startswith("aborting due to"):
            continue
        if any(k in msg for k in VERIFICATION_ERRORS):
            verr.append(d)
        else:
            other.append(d)
    return verr, other


def primary_span(d, gen):
    base = os.path.basename(gen)
    spans = d.get("spans", [])
    prim = [s for s in spans if s.get("is_primary") and os.path.basename(s["file_name"]) == base]
    if not prim:
        prim = [s for s in spans if os.path.basename(s["file_name"]) == base]
    return prim[0] if prim else None


def locate(span, smap, gen_text_lines):
    """map a generated-file span to (fn, repo file:line, statement text)"""
    if span is None:
        return None, "", ""
    ln = span["line_start"]
    stmt = gen_text_lines[ln - 1].strip() if 0 < ln <= len(gen_text_lines) else ""
    for (a, b, info) in smap:
        if a <= ln <= b:
            # find the same statement text in the original function to give an exact repo line
            ol = info["orig"].split("\n")
            off = None
            for k, t in enumerate(ol):
                if t.strip() and t.strip() == stmt:
                    off = k
                    break
            repo_line = info["line"] + (off if off is not None else 0)
            return info["fn"], "falcon-rust/src/%s:%d" % (info["file"], repo_line), stmt
    return None, "contract/prelude (generated line %d)" % ln, stmt


def scan_assumptions(text):
    hits = []
    for i, ln in enumerate(text.split("\n"), 1):
        code = ln.split("//")[0]
        for pat in ASSUMPTION_PATTERNS:
            if re.search(pat, code):
                hits.append((i, ln.strip()))
                break
    return hits


def run_unit(name, spec, tier):
    """One Verus unit.  Checks of different properties may run at the same time and share units:
    the generated files of a unit are protected by a per-unit file lock."""
    import fcntl
    os.makedirs(BUILD, exist_ok=True)
    with open(os.path.join(BUILD, name + ".lock"), "w") as lk:
        fcntl.flock(lk, fcntl.LOCK_EX)
        try:
            return _run_unit_locked(name, spec, tier)
        finally:
            fcntl.flock(lk, fcntl.LOCK_UN)


def _run_unit_locked(name, spec, tier):
    res = {"unit": name, "backend": "verus", "obligations": 0, "discharged": 0, "failures": [],
           "undecided": [], "functions": [], "cmds": [], "solver_time_s": 0.0, "wall_s": 0.0,
           "trusted": list(spec.get("trusted", [])), "bounded": [], "samples": [],
           "rewrites": [], "dropped": spec.get("dropped", []), "canaries": None,
           "notes": spec.get("complete", "")}
    tpl = os.path.join(VERIF, spec["template"])
    t0 = time.time()
    try:
        gen, smap, log, _, items = generate(name, tpl, canary=False)
        cgen, csmap, _, canary_ids, _ = generate(name, tpl, canary=True)
    except Undecided as e:
        res["undecided"].append(str(e))
        res["wall_s"] = time.time() - t0
        return res
    res["rewrites"] = log["rewrites"]
    res["functions"] = ["%s: %s" % (info["file"], info["fn"]) for (_, _, info) in smap]
    # assumption scan against the committed trusted list
    text = open(gen).read()
    allowed = spec.get("assumption_lines", [])
    for (ln, t) in scan_assumptions(text):
        if not any(re.search(a, t) for a in allowed):
            res["undecided"].append("assumption scan: unlisted assumption at generated line %d: %s" % (ln, t))
    if res["undecided"]:
        return res
    with ThreadPoolExecutor(2) as ex:
        f1 = ex.submit(run_verus, gen, spec.get("timeout", 1800), spec.get("rlimit"), 8)
        f2 = ex.submit(run_verus, cgen, spec.get("timeout", 1800), spec.get("rlimit"), 8)
        r1, r2 = f1.result(), f2.result()
    res["cmds"] += [r1["cmd"], r2["cmd"]]
    res["wall_s"] = time.time() - t0
    lines = text.split("\n")
    if r1["timeout"]:
        res["undecided"].append("verus timed out")
        return res
    verr, other = classify(r1["diags"])
    js = r1["json"]
    if js is None or other:
        msgs = "; ".join((d.get("message", "") + " @ " + str((primary_span(d, gen) or {}).get("line_start")))
                         for d in other[:5])
        if any("rlimit" in d.get("message", "").lower() or "resource limit" in d.get("message", "").lower()
               for d in other):
            res["undecided"].append("verus resource limit exceeded: " + msgs)
        else:
            res["undecided"].append("verus rejected the generated file (construct outside the catalogue "
                                    "or tool error): " + (msgs or r1["stderr"][-800:]))
        if not verr:
            return res
    if js is not None:
        vr = js.get("verification-results", {})
        res["obligations"] = vr.get("verified", 0) + vr.get("errors", 0)
        res["discharged"] = vr.get("verified", 0)
        smt = js.get("times-ms", {}).get("smt", {})
        res["solver_time_s"] = smt.get("smt-run", 0) / 1000.0
        for mt in smt.get("smt-run-module-times", []):
            for fb in mt.get("function-breakdown", []):
                res["samples"].append({"verus_item": fb["function"], "mode": fb.get("mode:"),
                                       "smt_ms": fb["time"], "success": fb["success"]})
    for d in verr:
        sp = primary_span(d, gen)
        fn, loc, stmt = locate(sp, smap, lines)
        clause = ""
        only = None
        for s in d.get("spans", []):
            if not s.get("is_primary") and s.get("text"):
                clause = s["text"][0]["text"].strip()
            # attribution: a contract clause / assertion whose line carries `// [only:Cxx,Cyy]` states
            # a fact only those properties need; its failure is not reported under other properties
            if os.path.basename(s.get("file_name", "")) == os.path.basename(gen):
                for k in range(s["line_start"], s["line_end"] + 1):
                    if 0 < k <= len(lines):
                        mo = re.search(r"\[only:([\w,]+)\]", lines[k - 1])
                        if mo:
                            only = sorted(set((only or []) + mo.group(1).split(",")))
        res["failures"].append({
            "unit": name, "backend": "verus", "where": fn or "(contract text)", "kind": d["message"],
            "desc": "%s: `%s`%s" % (d["message"], stmt, (" -- clause `%s`" % clause) if clause else ""),
            "loc": loc, "output": d.get("rendered", ""), "cex": None, "only": only})
    # canaries: every one must FAIL
    def canary_failed_ids(rr):
        cverr, _ = classify(rr["diags"])
        ctext = open(cgen).read().split("\n")
        ids = set()
        for d in cverr:
            sp = primary_span(d, cgen)
            if sp:
                for k in range(max(0, sp["line_start"] - 2), min(len(ctext), sp["line_end"] + 1)):
                    m = re.search(r"VX-CANARY (\d+)", ctext[k])
                    if m:
                        ids.add(int(m.group(1)))
        return ids

    if not res["failures"]:
        failed_ids = set()
        if not r2["timeout"] and r2["json"] is not None:
            failed_ids = canary_failed_ids(r2)
        missing = [c for c in canary_ids if c["id"] not in failed_ids]
        if missing:
            # one retry with a larger resource limit before giving up (solver nondeterminism)
            r3 = run_verus(cgen, spec.get("timeout", 1800), (spec.get("rlimit") or 10) * 4, 8)
            res["cmds"].append(r3["cmd"])
            if not r3["timeout"] and r3["json"] is not None:
                failed_ids |= canary_failed_ids(r3)
            missing = [c for c in canary_ids if c["id"] not in failed_ids]
        res["canaries"] = {"total": len(canary_ids), "failed_as_expected": len(failed_ids)}
        if missing:
            res["undecided"].append("vacuity guard: canary assert(false) verified at %s" % missing[:5])
    res["wall_s"] = time.time() - t0
    return res
