#!/usr/bin/env python3
"""Validate MANIFEST.json and evidence/*.json against the schemas (uses the tooling venv)."""
import json, sys, glob
try:
    import jsonschema
except ImportError:
    sys.path.insert(0, "/opt/veriftools/pyvenv/lib/python3.11/site-packages")
    import jsonschema
ok = True
m = json.load(open("/verif/MANIFEST.json"))
jsonschema.validate(m, json.load(open("/root/.vp/MANIFEST.schema.json")))
print("MANIFEST ok:", [c["property_id"] for c in m["checks"]])
es = json.load(open("/root/.vp/EVIDENCE.schema.json"))
for p in sorted(glob.glob("/verif/evidence/*.json")):
    try:
        jsonschema.validate(json.load(open(p)), es)
        print("ok", p)
    except Exception as e:
        ok = False
        print("INVALID", p, str(e)[:300])
sys.exit(0 if ok else 1)
