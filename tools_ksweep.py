#!/usr/bin/env python3
"""Mutation sweep for the Kani units (harness-strength test; development tool).  Mutants of the
functions a unit's harnesses call are written to a scratch copy of /repo (VERIF_REPO) and the unit is
run there.  usage: tools_ksweep.py <unit> <file> <fn[,fn..]> [max]   results appended to seeded/KSWEEP.json"""
import json, os, re, shutil, subprocess, sys, random
sys.path.insert(0, "/verif")
from vlib import extract as X

def mutants(body, maxn):
    m = X.mask(body)
    out = []
    for mm in re.finditer(r"(?<![\w.])(\d+)(?![\w.])", m):
        v = int(mm.group(1))
        for nv in (v + 1, v - 1):
            if nv >= 0:
                out.append((mm.start(), mm.end(), str(nv)))
    ops = [(" < ", " <= "), (" <= ", " < "), (" > ", " >= "), (" >= ", " > "), (" == ", " != "), (" != ", " == "),
           (" + ", " - "), (" - ", " + "), (" && ", " || "), (" || ", " && "), (" << ", " >> "), (" >> ", " << "),
           (" | ", " & "), (" & ", " | "), (" * ", " + ")]
    for a, b in ops:
        for mm in re.finditer(re.escape(a), m):
            out.append((mm.start(), mm.end(), b))
    random.Random(11).shuffle(out)
    return out[:maxn]

def main():
    unit, relfile, fns = sys.argv[1], sys.argv[2], sys.argv[3].split(",")
    maxn = int(sys.argv[4]) if len(sys.argv) > 4 else 12
    root = "/tmp/ksweep-repo"
    if not os.path.isdir(root):
        subprocess.run("mkdir -p %s && git -C /repo archive HEAD | tar -x -C %s" % (root, root), shell=True, check=True)
    path = os.path.join(root, "falcon-rust", "src", relfile)
    orig = open(os.path.join("/repo/falcon-rust/src", relfile)).read()
    results = []
    for fn in fns:
        within = None
        if "@@" in fn:
            within, fn = fn.split("@@", 1)
        elif ":" in fn and "<" not in fn:
            within, fn = fn.split(":", 1)
        masked = X.mask(orig)
        lo, hi = (0, len(orig)) if not within else X.find_scope(orig, masked, within)
        ms = [m for m in re.finditer(r"\bfn\s+%s\b" % re.escape(fn), masked) if lo <= m.start() < hi and not X._in_test_mod(masked, m.start())]
        assert len(ms) == 1, (fn, len(ms))
        po = masked.index("(", ms[0].end())
        depth = 0
        k = po
        while True:
            if masked[k] == "(": depth += 1
            elif masked[k] == ")":
                depth -= 1
                if depth == 0: break
            k += 1
        bo = masked.index("{", k)
        loc = {"body_open": bo, "body_close": X.match_brace(masked, bo)}
        body = orig[loc["body_open"]:loc["body_close"] + 1]
        for (a, b, rep) in mutants(body, maxn):
            new = orig[:loc["body_open"] + a] + rep + orig[loc["body_open"] + b:]
            line = orig.count("\n", 0, loc["body_open"] + a) + 1
            open(path, "w").write(new)
            code = ("import sys; sys.path.insert(0,'/verif'); from vlib import runner as R\n"
                    "r = R.run_unit(%r, 'quick')\n"
                    "print('VERDICT', 'FAIL' if r['failures'] else ('UNDECIDED' if r['undecided'] else 'PASS'), (r['failures'][0]['desc'][:100] if r['failures'] else (r['undecided'][0][:100] if r['undecided'] else '')))\n") % unit
            p = subprocess.run([sys.executable, "-c", code], env=dict(os.environ, VERIF_REPO=root), stdout=subprocess.PIPE, stderr=subprocess.STDOUT, text=True)
            v = [l for l in p.stdout.splitlines() if l.startswith("VERDICT")]
            verdict = v[-1][8:] if v else "UNDECIDED no output"
            rec = {"unit": unit, "file": relfile, "fn": fn, "line": line, "mutation": body[a:b].strip() + " -> " + rep.strip(),
                   "context": orig.splitlines()[line - 1].strip()[:100], "verdict": verdict}
            results.append(rec)
            print("%-10s %-26s %4d %-12s %s | %s" % (unit, fn, line, rec["mutation"], verdict[:70], rec["context"][:60]), flush=True)
        open(path, "w").write(orig)
    out = "/verif/seeded/KSWEEP.json"
    old = json.load(open(out)) if os.path.exists(out) else []
    json.dump(old + results, open(out, "w"), indent=1)

if __name__ == "__main__":
    main()
