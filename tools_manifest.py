#!/usr/bin/env python3
"""Regenerate MANIFEST.json from vlib/units.py (claimed properties) + the static texts below."""
import json
import os
import sys

HERE = os.path.dirname(os.path.abspath(__file__))
sys.path.insert(0, HERE)
from vlib import units as U  # noqa

NA = {
    "C10": "distribution-level statement (second moments of signature vectors over messages and randomness); no pre/postcondition of any function expresses it and the code path is floating point throughout",
    "C13": "a rounding-error bound over IEEE doubles: Verus treats f64 as uninterpreted and CBMC cannot bit-blast even an n=4 complex transform; the exact-arithmetic split/merge facts are proved only for the Felt instantiation (C11) and are not transferred to Complex64",
    "C15": "determinism / non-interference of a call graph through BigInt and floating point, plus seed-bit sensitivity of ChaCha12 (external dependency); a contract could state it only via a full functional specification of keygen, which is out of reach",
    "C16": "the oracle is an external C implementation (PQClean) that no contract on code in /repo mentions; the shared byte layouts are checked against the specification's formats under C05/C06",
    "C17": "every clause depends on the value of a floating-point quotient round(FFT^-1(..)); uninterpreted floats decide none of them and BigInt + f64 is beyond CBMC even at n=2",
}
PENDING = "contract units for this property are not finished yet in this tree (see DESIGN.md section 6 for the plan); not claimed until its check passes on the unchanged tree"


def main():
    props = [json.loads(l) for l in open(os.path.join(HERE, "properties.jsonl"))]
    checks = []
    na = []
    for p in props:
        pid = p["id"]
        if pid in U.PROPS:
            P = U.PROPS[pid]
            checks.append({
                "property_id": pid,
                "quick_cmd": "./check %s --tier quick" % pid,
                "thorough_cmd": "./check %s --tier thorough" % pid,
                "evidence_file": "/verif/evidence/%s.json" % pid,
                "replay_cmd_template": "./check %s --replay {path}" % pid,
                "engine": "+".join(sorted(set(U.UNITS[u]["backend"] for u in P["quick"] + P.get("thorough", [])))),
                "level_claimed": {"category": P["level"], "text": P["level_text"],
                                  "design_ref": "DESIGN.md section 6 (%s), section 4" % pid},
                "level_note": P["level_note"],
                "technique": P["technique"],
            })
        else:
            na.append({"property_id": pid, "reason": NA.get(pid, PENDING)})
    m = {
        "version": 1,
        "setup_cmd": "./setup.sh",
        "hooks": {
            "guard": "--cfg falcon_rust_verif",
            "enable": "RUSTFLAGS='--cfg falcon_rust_verif' FALCON_RUST_VERIF_DIR=/verif (cargo kani / cargo build of /verif/replay); each module's `mod verif` then includes /verif/hooks/<module>.rs",
            "baseline_off_cmd": "cd /repo && cargo test --workspace --no-fail-fast --offline",
            "source_commits": U.HOOK_COMMITS,
            "add_only": True,
        },
        "engines": [
            {"name": "KH", "path": "/verif/vlib/kani.py", "kind_free_text": "Kani 0.68 / CBMC 6.11 proof harnesses stating function contracts on the real crate, in place",
             "serves_properties": sorted(p for p in U.PROPS if any(U.UNITS[u]["backend"] == "kani" for u in U.PROPS[p]["quick"] + U.PROPS[p].get("thorough", [])))},
            {"name": "VX", "path": "/verif/vlib/vx.py", "kind_free_text": "Verus 0.2026.09.13 on function text extracted mechanically from /repo on every run, contracts spliced from /verif/contracts/*.vc",
             "serves_properties": sorted(p for p in U.PROPS if any(U.UNITS[u]["backend"] == "verus" for u in U.PROPS[p]["quick"] + U.PROPS[p].get("thorough", [])))},
        ],
        "checks": checks,
        "not_applicable": na,
        "notes": "Contract-based deductive verification (Verus + Kani). exit 2 = UNDECIDED (lost anchor / unsupported construct / tool limit), never an alarm. See DESIGN.md.",
    }
    json.dump(m, open(os.path.join(HERE, "MANIFEST.json"), "w"), indent=1)
    print("wrote MANIFEST.json: %d checks, %d not_applicable" % (len(checks), len(na)))


if __name__ == "__main__":
    main()
