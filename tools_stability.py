#!/usr/bin/env python3
"""Proof-stability test: every Verus unit must verify under several crate names and solver seeds
(an unstable proof is a future false alarm).  usage: tools_stability.py [unit ...]"""
import os, shutil, subprocess, sys
sys.path.insert(0, '/verif')
from vlib import vx, units as U
from concurrent.futures import ThreadPoolExecutor

def variants(gen):
    d = os.path.dirname(gen)
    out = []
    for nm, seed in [("stab_a", None), ("Zq9", 1), ("unit_m_7", 2), ("k", 3), ("stab_long_name_xyz", 4)]:
        p = os.path.join(d, nm + ".rs")
        shutil.copy(gen, p)
        out.append((p, seed))
    return out

def run(p, seed):
    cmd = ["verus", p, "--num-threads", "4"]
    if seed is not None:
        cmd += ["--smt-option", "smt.random_seed=%d" % seed, "--smt-option", "sat.random_seed=%d" % seed]
    r = subprocess.run(cmd, cwd=os.path.dirname(p), stdout=subprocess.PIPE, stderr=subprocess.STDOUT, text=True)
    line = [l for l in r.stdout.splitlines() if "verification results" in l]
    errs = [l for l in r.stdout.splitlines() if l.startswith("error")][:3]
    return (line[-1] if line else r.stdout[-300:]), errs

names = sys.argv[1:] or [u for u, s in U.UNITS.items() if s["backend"] == "verus"]
bad = 0
for u in names:
    gen, *_ = vx.generate("STAB-" + u, os.path.join('/verif', U.UNITS[u]["template"]))
    vs = variants(gen)
    with ThreadPoolExecutor(3) as ex:
        res = list(ex.map(lambda a: run(*a), vs))
    ok = all(", 0 errors" in r[0] for r in res)
    print("%-12s %s" % (u, "STABLE" if ok else "UNSTABLE"), flush=True)
    if not ok:
        bad += 1
        for (p, seed), r in zip(vs, res):
            print("    %-24s seed=%s %s %s" % (os.path.basename(p), seed, r[0], r[1]))
    for p, _ in vs:
        os.remove(p)
sys.exit(1 if bad else 0)
