// Replay tool: executes a replay file's concrete input against the REAL falcon-rust code
// (built from /repo's working tree with --cfg falcon_rust_verif).
//
//   replay harness <name> <hexvec,hexvec,...>   run a Kani harness body natively on the
//                                               concrete-playback byte vectors
use falcon_rust::verif_api;

// C01 (concurrency clause), compile-time obligations discharged by rustc: the key and signature
// types can be shared between threads, and sign / verify take them by shared reference.
#[allow(dead_code)]
fn assert_send_sync<T: Send + Sync>() {}
#[allow(dead_code)]
fn c01_frame_obligations() {
    assert_send_sync::<falcon_rust::falcon512::SecretKey>();
    assert_send_sync::<falcon_rust::falcon1024::SecretKey>();
    assert_send_sync::<falcon_rust::falcon512::PublicKey>();
    assert_send_sync::<falcon_rust::falcon1024::PublicKey>();
    assert_send_sync::<falcon_rust::falcon512::Signature>();
    assert_send_sync::<falcon_rust::falcon1024::Signature>();
    let _s512: fn(&[u8], &falcon_rust::falcon512::SecretKey) -> falcon_rust::falcon512::Signature = falcon_rust::falcon512::sign;
    let _s1024: fn(&[u8], &falcon_rust::falcon1024::SecretKey) -> falcon_rust::falcon1024::Signature = falcon_rust::falcon1024::sign;
}

fn unhex(s: &str) -> Vec<u8> {
    (0..s.len() / 2)
        .map(|i| u8::from_str_radix(&s[2 * i..2 * i + 2], 16).unwrap())
        .collect()
}

fn main() {
    let args: Vec<String> = std::env::args().collect();
    if args.len() < 2 {
        eprintln!("usage: replay harness <name> <hex,hex,...> | replay <subcommand> ...");
        std::process::exit(2);
    }
    std::panic::set_hook(Box::new(|_| {}));
    match args[1].as_str() {
        "harness" => {
            let name = &args[2];
            let vals: Vec<Vec<u8>> = if args.len() > 3 && !args[3].is_empty() {
                args[3].split(',').map(unhex).collect()
            } else {
                vec![]
            };
            std::panic::set_hook(Box::new(|_| {}));
            match verif_api::replay_harness(name, vals) {
                Ok(true) => {
                    println!("NOT-REPRODUCED harness={} (body ran to completion)", name);
                    std::process::exit(0);
                }
                Ok(false) => {
                    println!("UNKNOWN-HARNESS {}", name);
                    std::process::exit(2);
                }
                Err(msg) => {
                    println!("REPRODUCED harness={} panic={:?}", name, msg);
                    std::process::exit(1);
                }
            }
        }
        other => {
            let rest: Vec<String> = args[2..].to_vec();
            std::process::exit(verif_api::tool(other, &rest));
        }
    }
}
