#!/usr/bin/env python3
"""False-alarm test: apply a behaviour-preserving patch to /repo, run the units that read the
touched files, restore /repo.  A unit FAILURE on such a patch is a false alarm of the machinery
(to be corrected); UNDECIDED (exit-2 material) is acceptable; PASS is the goal.

usage: tools_equiv.py <patch.diff> [<patch.diff> ...]      (results appended to equiv/results.jsonl)
"""
import fcntl
import json
import os
import re
import shutil
import subprocess
import sys
import tempfile
import time

_REPO_LOCK = open("/verif/build/repo.lock", "w")
fcntl.flock(_REPO_LOCK, fcntl.LOCK_EX)
sys.path.insert(0, "/verif")
from vlib import runner as R  # noqa
from vlib import units as U  # noqa

BY_FILE = {
    "encoding.rs": ["U-CODEC", "U-CODEC-K"],
    "falcon.rs": ["U-VERIFY", "U-PK", "U-SK", "U-SKF", "U-SIGN", "U-KEYGEN", "U-SIG", "U-FRAME"],
    "polynomial.rs": ["U-H2P", "U-NTT-POLY", "U-VERIFY", "U-KEYGEN"],
    "falcon_field.rs": ["U-FELT", "U-FELT-INV"],
    "inverse.rs": ["U-BATCHINV"],
    "cyclotomic_fourier.rs": ["U-NTT-CORE", "U-NTT-POLY"],
    "fast_fft.rs": ["U-NTT-CORE", "U-NTT-POLY", "U-TAB"],
    "samplerz.rs": ["U-SAMP", "U-APPROX", "U-SAMPZ"],
    "math.rs": ["U-KEYGEN"],
}


def main():
    os.makedirs("/verif/equiv", exist_ok=True)
    evbak = tempfile.mkdtemp(prefix="evbak")
    shutil.copytree("/verif/evidence", evbak + "/evidence")
    try:
        for patch in sys.argv[1:]:
            text = open(patch).read()
            files = sorted(set(os.path.basename(f) for f in re.findall(r"^\+\+\+ b/(\S+)", text, re.M)))
            units = []
            for f in files:
                for u in BY_FILE.get(f, []):
                    if u not in units:
                        units.append(u)
            only = os.environ.get("EQUIV_UNITS")
            if only:
                units = [u for u in units if u in only.split(",")]
            p = subprocess.run(["git", "-C", "/repo", "apply", os.path.abspath(patch)], stdout=subprocess.PIPE, stderr=subprocess.STDOUT, text=True)
            if p.returncode != 0:
                print("%s: does not apply: %s" % (patch, p.stdout.strip()[:200]))
                continue
            rec = {"patch": patch, "files": files, "units": {}}
            try:
                for u in units:
                    t0 = time.time()
                    try:
                        r = R.run_unit(u, "quick")
                    except Exception as e:  # noqa
                        r = {"failures": [], "undecided": ["internal error: %r" % e], "obligations": 0, "discharged": 0}
                    known = R.load_known()
                    fails = [f for f in r["failures"] if not any(R.match_known(known, p_, f) for p_ in U.PROPS)]
                    verdict = "FALSE-ALARM" if fails else ("UNDECIDED" if r["undecided"] else "PASS")
                    rec["units"][u] = {"verdict": verdict, "failures": [f["desc"][:300] for f in fails],
                                       "undecided": [x[:300] for x in r["undecided"]], "wall_s": round(time.time() - t0, 1)}
                    print("%-28s %-12s %s %s" % (os.path.basename(patch), u, verdict,
                                                 (fails[0]["desc"][:200] if fails else (r["undecided"][0][:200] if r["undecided"] else ""))), flush=True)
            finally:
                subprocess.run(["git", "-C", "/repo", "checkout", "--", "."])
            open("/verif/equiv/results.jsonl", "a").write(json.dumps(rec) + "\n")
    finally:
        shutil.rmtree("/verif/evidence", ignore_errors=True)
        shutil.copytree(evbak + "/evidence", "/verif/evidence")
        shutil.rmtree(evbak, ignore_errors=True)


if __name__ == "__main__":
    main()
