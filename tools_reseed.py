#!/usr/bin/env python3
"""Detection regression: re-apply every filed seeded change to /repo, run the check of the property
it breaks, expect exit 1 (CAUGHT), restore /repo.  usage: tools_reseed.py [name-substring ...]
Results: seeded/REGRESSION.json (verdict per change, with the first reported obligation)."""
import fcntl
import glob
import json
import os
import shutil
import subprocess
import sys
import tempfile
import time

_REPO_LOCK = open("/verif/build/repo.lock", "w")
fcntl.flock(_REPO_LOCK, fcntl.LOCK_EX)


def sh(cmd, cwd=None):
    p = subprocess.run(cmd, shell=True, cwd=cwd, stdout=subprocess.PIPE, stderr=subprocess.STDOUT, text=True)
    return p.returncode, p.stdout


def main():
    want = sys.argv[1:]
    evbak = tempfile.mkdtemp(prefix="evbak")
    shutil.copytree("/verif/evidence", evbak + "/evidence")
    out = {}
    path = "/verif/seeded/REGRESSION.json"
    if want and os.path.exists(path):
        out = json.load(open(path))
    try:
        for d in sorted(glob.glob("/verif/seeded/*/")):
            name = os.path.basename(d.rstrip("/"))
            if want and not any(w in name for w in want):
                continue
            meta = json.load(open(d + "meta.json"))
            prop = meta["breaks_property"]
            rc, o = sh("git -C /repo apply %spatch.diff" % d)
            if rc != 0:
                out[name] = {"property": prop, "verdict": "PATCH-DOES-NOT-APPLY", "detail": o.strip()[:200]}
                print(name, out[name]["verdict"], flush=True)
                continue
            t0 = time.time()
            try:
                rc, o = sh("./check %s" % prop, "/verif")
            finally:
                sh("git -C /repo checkout -- .")
            lines = [l.strip() for l in o.splitlines() if l.startswith(("  failed", "VIOLATION", "UNDECIDED"))]
            out[name] = {"property": prop, "verdict": {0: "MISSED", 1: "CAUGHT", 2: "UNDECIDED"}.get(rc, str(rc)),
                         "first": [l[:300] for l in lines[:2]], "wall_s": round(time.time() - t0, 1)}
            print("%-40s %s %s" % (name, prop, out[name]["verdict"]), flush=True)
            json.dump(out, open(path, "w"), indent=1)
    finally:
        sh("git -C /repo checkout -- .")
        shutil.rmtree("/verif/evidence", ignore_errors=True)
        shutil.copytree(evbak + "/evidence", "/verif/evidence")
        shutil.rmtree(evbak, ignore_errors=True)
    bad = [n for n, v in out.items() if v["verdict"] != "CAUGHT"]
    print("seeded changes: %d, caught: %d, other: %s" % (len(out), len(out) - len(bad), bad))


if __name__ == "__main__":
    main()
