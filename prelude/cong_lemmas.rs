// congruence arithmetic modulo q = 12289 (no code involved)
proof fn lemma_cong_modq(x: int, y: int)
    ensures cong(x, y) <==> modq(x) == modq(y)
{
    assert(cong(x, y) <==> modq(x) == modq(y)) by (nonlinear_arith);
}
proof fn lemma_modq_idem(x: int)
    ensures modq(modq(x)) == modq(x), 0 <= modq(x) < 12289, cong(modq(x), x)
{
    assert(modq(modq(x)) == modq(x) && 0 <= modq(x) < 12289 && cong(modq(x), x)) by (nonlinear_arith);
}
proof fn lemma_divides(x: int) -> (k: int)
    requires x % 12289 == 0
    ensures x == 12289 * k
{
    vstd::arithmetic::div_mod::lemma_fundamental_div_mod(x, 12289);
    x / 12289
}
proof fn lemma_multiple(k: int)
    ensures (12289 * k) % 12289 == 0
{
    vstd::arithmetic::div_mod::lemma_mod_multiples_basic(k, 12289);
    assert(12289 * k == k * 12289) by (nonlinear_arith);
}
proof fn lemma_cong_arith(a: int, a2: int, b: int, b2: int)
    requires cong(a, a2), cong(b, b2)
    ensures cong(a + b, a2 + b2), cong(a - b, a2 - b2), cong(a * b, a2 * b2)
{
    let u = lemma_divides(a - a2);
    let w = lemma_divides(b - b2);
    lemma_multiple(u + w);
    lemma_multiple(u - w);
    assert((a + b) - (a2 + b2) == 12289 * (u + w)) by (nonlinear_arith) requires a - a2 == 12289 * u, b - b2 == 12289 * w;
    assert((a - b) - (a2 - b2) == 12289 * (u - w)) by (nonlinear_arith) requires a - a2 == 12289 * u, b - b2 == 12289 * w;
    assert(a * b - a2 * b2 == 12289 * (a * w + b2 * u)) by (nonlinear_arith)
        requires a - a2 == 12289 * u, b - b2 == 12289 * w;
    lemma_multiple(a * w + b2 * u);
}
proof fn lemma_cong_trans(a: int, b: int, c: int)
    requires cong(a, b), cong(b, c)
    ensures cong(a, c), cong(b, a)
{
    assert(cong(a, c) && cong(b, a)) by (nonlinear_arith) requires cong(a, b), cong(b, c);
}

proof fn lemma_cong_refl(x: int)
    ensures cong(x, x)
{
}
