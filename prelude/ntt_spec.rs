// Specification vocabulary for the number-theoretic transform over Z_q, q = 12289 (shared by
// U-NTT and U-VERIFY).  Written from the mathematics of property C11 / Algorithm 16, not from the
// code: evaluation at the roots of X^n + 1, negacyclic convolution, sum of squares.

/// the integer value of entry k of the forward / inverse twiddle table
pub uninterp spec fn tab(k: int) -> int;
pub uninterp spec fn tabi(k: int) -> int;

pub open spec fn pow2(n: int) -> bool {
    n == 1 || n == 2 || n == 4 || n == 8 || n == 16 || n == 32 || n == 64 || n == 128 || n == 256
        || n == 512 || n == 1024
}
pub open spec fn canon_seq(s: Seq<int>) -> bool { forall|i: int| 0 <= i < s.len() ==> 0 <= #[trigger] s[i] < 12289 }

#[verifier::opaque]
pub open spec fn powi(b: int, e: nat) -> int
    decreases e
{
    if e == 0 { 1 } else { b * powi(b, (e - 1) as nat) }
}
/// sum_{l < m} a[l] * r^l   (an unreduced integer)
#[verifier::opaque]
pub open spec fn eval_upto(a: Seq<int>, r: int, m: nat) -> int
    decreases m
{
    if m == 0 { 0 } else { eval_upto(a, r, (m - 1) as nat) + a[m - 1] * powi(r, (m - 1) as nat) }
}
pub open spec fn eval(a: Seq<int>, r: int) -> int { eval_upto(a, r, a.len()) }

/// the i-th root of X^n + 1 in the order the in-place transform produces the evaluations:
/// +-tab(n/2 + i/2), i.e. +-psi^bitrev(n/2 + i/2) (for n = 1 the only root is -1)
pub open spec fn root(n: int, i: int) -> int {
    if n == 1 { 12288 } else if i % 2 == 0 { tab(n / 2 + i / 2) } else { modq(-tab(n / 2 + i / 2)) }
}
/// the forward transform: canonical evaluations at the n roots
pub open spec fn ntt_of(a: Seq<int>) -> Seq<int> {
    Seq::new(a.len(), |i: int| modq(eval(a, root(a.len() as int, i))))
}

/// negacyclic convolution (product in Z[X]/(X^n+1)), coefficient k, summed over the first m terms
pub open spec fn bneg(b: Seq<int>, d: int) -> int { if d >= 0 { b[d] } else { -b[d + b.len()] } }
#[verifier::opaque]
pub open spec fn conv_upto(a: Seq<int>, b: Seq<int>, k: int, m: nat) -> int
    decreases m
{
    if m == 0 { 0 } else { conv_upto(a, b, k, (m - 1) as nat) + a[m - 1] * bneg(b, k - (m - 1)) }
}
pub open spec fn negacyclic(a: Seq<int>, b: Seq<int>) -> Seq<int> {
    Seq::new(a.len(), |k: int| conv_upto(a, b, k, a.len()))
}

/// sum of squares of the first m entries
#[verifier::opaque]
pub open spec fn sq_upto(v: Seq<int>, m: nat) -> int
    decreases m
{
    if m == 0 { 0 } else { sq_upto(v, (m - 1) as nat) + v[m - 1] * v[m - 1] }
}
pub open spec fn sq_norm(v: Seq<int>) -> int { sq_upto(v, v.len()) }
