// Field-level facts about Z_q used by units that divide (imported; discharged by Kani in unit
// U-FELT-INV over all residues): every nonzero residue has the inverse computed by
// Felt::inverse_or_zero.
pub uninterp spec fn finv(a: int) -> int;
pub open spec fn finv_facts() -> bool {
    &&& finv(0) == 0
    &&& forall|a: int| 0 < a < 12289 ==> 0 < #[trigger] finv(a) < 12289 && cong(a * finv(a), 1)
}
/// Kani U-FELT-INV: felt_inv_00 .. felt_inv_15 (canonical, zero -> zero, a * inv(a) == 1)
#[verifier::external_body]
proof fn axiom_finv_facts()
    ensures finv_facts()
{ }
/// <Felt as Inverse>::inverse_or_zero — contract discharged by Kani (U-FELT-INV)
#[verifier::external_body]
fn inverse_or_zero(a: Felt) -> (r: Felt)
    requires wf(a)
    ensures wf(r), r.0 as int == finv(a.0 as int)
{ unimplemented!() }
/// Zero::zero / One::one / Zero::is_zero for Felt — discharged by Kani: felt_consts_contract
#[verifier::external_body]
fn zero() -> (r: Felt) ensures r.0 == 0 { unimplemented!() }
#[verifier::external_body]
fn one() -> (r: Felt) ensures r.0 == 1 { unimplemented!() }
impl Felt {
    #[verifier::external_body]
    pub fn is_zero(&self) -> (r: bool)
        requires wf(*self)
        ensures r == (self.0 == 0)
    { unimplemented!() }
}
