// Stage-level specification of the in-place transforms (Algorithms 1 and 2 of eprint 2016/504 as
// used by the crate): one forward / inverse butterfly stage as a function on whole sequences, and
// the transforms as compositions of stages.  The link to `ntt_of` (evaluation at the roots) is
// proved over these spec functions alone (prelude/ntt_theory.rs).

/// one forward stage with m blocks of size 2t: position p is in block i = p / 2t at offset j = p % 2t
pub open spec fn stage_val(a: Seq<int>, m: int, t: int, p: int) -> int {
    let w = 2 * t;
    let i = p / w;
    let j = p % w;
    let s = tab(m + i);
    if j < t { modq(a[p] + a[p + t] * s) } else { modq(a[p - t] - a[p] * s) }
}
pub open spec fn stage_seq(a: Seq<int>, m: int, t: int) -> Seq<int> {
    Seq::new(a.len(), |p: int| stage_val(a, m, t, p))
}
/// the forward transform from the state (m blocks of size t): remaining stages
#[verifier::opaque]
pub open spec fn fwd(a: Seq<int>, m: int, t: int) -> Seq<int>
    decreases t
{
    if t <= 1 { a } else { fwd(stage_seq(a, m, t / 2), 2 * m, t / 2) }
}

/// one inverse stage with h blocks of size 2t
pub open spec fn istage_val(a: Seq<int>, h: int, t: int, p: int) -> int {
    let w = 2 * t;
    let i = p / w;
    let j = p % w;
    let s = tabi(h + i);
    if j < t { modq(a[p] + a[p + t]) } else { modq((a[p - t] - a[p]) * s) }
}
pub open spec fn istage_seq(a: Seq<int>, h: int, t: int) -> Seq<int> {
    Seq::new(a.len(), |p: int| istage_val(a, h, t, p))
}
#[verifier::opaque]
pub open spec fn inv(a: Seq<int>, m: int, t: int) -> Seq<int>
    decreases m
{
    if m <= 1 { a } else { inv(istage_seq(a, m / 2, t), m / 2, 2 * t) }
}
pub open spec fn scale(a: Seq<int>, c: int) -> Seq<int> { Seq::new(a.len(), |p: int| modq(c * a[p])) }

/// the facts about the two tables that the transforms consume; each clause is discharged on the
/// real tables by a Kani harness of unit U-TAB (tab_wf, tab_square_relations, tab_inverse_relation)
pub open spec fn table_facts() -> bool {
    &&& tab(0) == 1
    &&& forall|k: int| 0 <= k < 1024 ==> 0 <= #[trigger] tab(k) < 12289
    &&& forall|k: int| 0 <= k < 1024 ==> 0 <= #[trigger] tabi(k) < 12289
    &&& forall|k: int| 0 <= k < 512 ==> cong(#[trigger] tab(2 * k) * tab(2 * k), tab(k))
    &&& forall|k: int| 0 <= k < 512 ==> cong(#[trigger] tab(2 * k + 1) * tab(2 * k + 1), -tab(k))
    &&& forall|k: int| 0 <= k < 1024 ==> cong(#[trigger] tab(k) * tabi(k), 1)
}
/// the transforms' end-to-end specifications (exported contracts are stated with these)
pub open spec fn fwd_spec(a: Seq<int>) -> Seq<int> { fwd(a, 1, a.len() as int) }
pub open spec fn inv_spec(x: Seq<int>, ninv: int) -> Seq<int> { scale(inv(x, x.len() as int, 1), ninv) }
