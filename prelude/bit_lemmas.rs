// small shared lemmas about MSB-first bit indexing
pub open spec fn bitof(b: u8, t: int) -> bool { (b >> ((7 - t) as u8)) & 1u8 == 1u8 }

proof fn lemma_bit_index(x: Seq<u8>, d: int, m: int)
    requires 0 <= d < x.len(), 0 <= m < 8
    ensures bit(x, 8 * d + m) == ((x[d] >> ((7 - m) as u8)) & 1u8 == 1u8)
{
    assert((8 * d + m) / 8 == d);
    assert((8 * d + m) % 8 == m);
}


proof fn lemma_byte_ext(a: u8, b: u8)
    requires forall|t: int| 0 <= t < 8 ==> bitof(a, t) == bitof(b, t)
    ensures a == b
{
    assert(bitof(a, 0) == bitof(b, 0) && bitof(a, 1) == bitof(b, 1) && bitof(a, 2) == bitof(b, 2)
        && bitof(a, 3) == bitof(b, 3) && bitof(a, 4) == bitof(b, 4) && bitof(a, 5) == bitof(b, 5)
        && bitof(a, 6) == bitof(b, 6) && bitof(a, 7) == bitof(b, 7));
    assert((((a >> 7u8) & 1u8 == 1u8) == ((b >> 7u8) & 1u8 == 1u8) && ((a >> 6u8) & 1u8 == 1u8) == ((b >> 6u8) & 1u8 == 1u8)
        && ((a >> 5u8) & 1u8 == 1u8) == ((b >> 5u8) & 1u8 == 1u8) && ((a >> 4u8) & 1u8 == 1u8) == ((b >> 4u8) & 1u8 == 1u8)
        && ((a >> 3u8) & 1u8 == 1u8) == ((b >> 3u8) & 1u8 == 1u8) && ((a >> 2u8) & 1u8 == 1u8) == ((b >> 2u8) & 1u8 == 1u8)
        && ((a >> 1u8) & 1u8 == 1u8) == ((b >> 1u8) & 1u8 == 1u8) && ((a >> 0u8) & 1u8 == 1u8) == ((b >> 0u8) & 1u8 == 1u8))
        ==> a == b) by (bit_vector);
}

