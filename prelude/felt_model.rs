// Shared model of falcon_field::Felt for Verus units (included with //@include).
// The operator contracts below are ASSUMED in Verus units and DISCHARGED on the real code by the
// Kani harnesses of unit U-FELT (felt_new_contract, felt_add_contract, felt_sub_contract,
// felt_neg_contract, felt_mul_contract, felt_value_contract, felt_consts_contract), which state
// the same clauses over the full input domains.
#[derive(Clone, Copy)]
pub struct Felt(pub u32);

pub open spec fn wf(x: Felt) -> bool { x.0 < 12289 }
pub open spec fn fval(x: Felt) -> int { x.0 as int }
pub open spec fn wf_seq(s: Seq<Felt>) -> bool { forall|i: int| 0 <= i < s.len() ==> wf(#[trigger] s[i]) }
pub open spec fn fints(s: Seq<Felt>) -> Seq<int> { s.map(|i: int, e: Felt| e.0 as int) }
/// canonical representative of an integer modulo q
pub open spec fn modq(v: int) -> int { v % 12289 }
pub open spec fn centre(a: int) -> int { if a > 6144 { a - 12289 } else { a } }

impl Felt {
    /// discharged by Kani: felt_new_contract (all i16)
    #[verifier::external_body]
    pub fn new(value: i16) -> (r: Felt)
        ensures wf(r), r.0 as int == modq(value as int)
    { unimplemented!() }
    /// discharged by Kani: felt_value_contract
    #[verifier::external_body]
    pub fn value(&self) -> (r: i16)
        requires wf(*self)
        ensures r as int == self.0 as int
    { unimplemented!() }
    /// discharged by Kani: felt_value_contract
    #[verifier::external_body]
    pub fn balanced_value(&self) -> (r: i16)
        requires wf(*self)
        ensures r as int == centre(self.0 as int)
    { unimplemented!() }
}
impl core::ops::Add for Felt {
    type Output = Felt;
    #[verifier::external_body]
    fn add(self, rhs: Felt) -> (r: Felt) { unimplemented!() }
}
impl vstd::std_specs::ops::AddSpecImpl<Felt> for Felt {
    open spec fn obeys_add_spec() -> bool { true }
    open spec fn add_req(self, rhs: Felt) -> bool { wf(self) && wf(rhs) }
    open spec fn add_spec(self, rhs: Felt) -> Felt { Felt(((self.0 + rhs.0) % 12289) as u32) }
}
impl core::ops::Sub for Felt {
    type Output = Felt;
    #[verifier::external_body]
    fn sub(self, rhs: Felt) -> (r: Felt) { unimplemented!() }
}
impl vstd::std_specs::ops::SubSpecImpl<Felt> for Felt {
    open spec fn obeys_sub_spec() -> bool { true }
    open spec fn sub_req(self, rhs: Felt) -> bool { wf(self) && wf(rhs) }
    open spec fn sub_spec(self, rhs: Felt) -> Felt { Felt(((self.0 + 12289 - rhs.0) % 12289) as u32) }
}
impl core::ops::Mul for Felt {
    type Output = Felt;
    #[verifier::external_body]
    fn mul(self, rhs: Felt) -> (r: Felt) { unimplemented!() }
}
impl vstd::std_specs::ops::MulSpecImpl<Felt> for Felt {
    open spec fn obeys_mul_spec() -> bool { true }
    open spec fn mul_req(self, rhs: Felt) -> bool { wf(self) && wf(rhs) }
    open spec fn mul_spec(self, rhs: Felt) -> Felt { Felt(((self.0 * rhs.0) % 12289) as u32) }
}
impl core::ops::Neg for Felt {
    type Output = Felt;
    #[verifier::external_body]
    fn neg(self) -> (r: Felt) { unimplemented!() }
}
impl vstd::std_specs::ops::NegSpecImpl for Felt {
    open spec fn obeys_neg_spec() -> bool { true }
    open spec fn neg_req(self) -> bool { wf(self) }
    open spec fn neg_spec(self) -> Felt { Felt(((12289 - self.0) % 12289) as u32) }
}

pub struct Polynomial<F> {
    pub coefficients: Vec<F>,
}
