// The other direction of the transform theory (no code involved): the forward stage composition
// undoes the inverse one, so every canonical vector x is the transform of inv_spec(x).

/// a forward stage undoes the matching inverse stage up to a factor 2 (on scaled inputs)
proof fn lemma_stage_istage(x: Seq<int>, c: int, h: int, t: int)
    requires table_facts(), pow2(h), h <= 512, t >= 1, x.len() == h * (2 * t)
    ensures stage_seq(scale(istage_seq(x, h, t), c), h, t) =~= scale(x, 2 * c)
{
    let n = x.len() as int;
    let w = 2 * t;
    let g = istage_seq(x, h, t);
    let y = scale(g, c);
    let z = stage_seq(y, h, t);
    assert forall|p: int| 0 <= p < n implies #[trigger] z[p] == scale(x, 2 * c)[p] by {
        lemma_divmod_halves(p, t);
        let i = p / w; let j = p % w;
        assert(i < h) by (nonlinear_arith) requires p == i * w + j, p < h * w, j >= 0, w > 0;
        let s = tab(h + i);
        let si = tabi(h + i);
        assert(cong(s * si, 1));
        assert((i + 1) * w <= h * w && (i + 1) * w == i * w + w) by (nonlinear_arith) requires i + 1 <= h, w >= 0;
        if j < t {
            let u = x[p]; let v = x[p + t];
            // g[p] ~ u + v ; g[p+t] ~ (u - v) si ; z[p] = modq(y[p] + y[p+t] s) ~ c(u+v) + c(u-v) si s ~ 2 c u
            lemma_modq_idem(u + v); lemma_modq_idem((u - v) * si);
            lemma_modq_idem(c * g[p]); lemma_modq_idem(c * g[p + t]);
            lemma_cong_refl(c); lemma_cong_refl(s);
            lemma_cong_arith(c, c, g[p], u + v);
            lemma_cong_arith(c, c, g[p + t], (u - v) * si);
            lemma_cong_trans(y[p], c * g[p], c * (u + v));
            lemma_cong_trans(y[p + t], c * g[p + t], c * ((u - v) * si));
            lemma_cong_arith(y[p + t], c * ((u - v) * si), s, s);
            assert((c * ((u - v) * si)) * s == (c * (u - v)) * (s * si)) by (nonlinear_arith);
            lemma_cong_refl(c * (u - v));
            lemma_cong_arith(c * (u - v), c * (u - v), s * si, 1);
            assert((c * (u - v)) * 1 == c * (u - v));
            lemma_cong_trans(y[p + t] * s, (c * (u - v)) * (s * si), c * (u - v));
            lemma_cong_arith(y[p], c * (u + v), y[p + t] * s, c * (u - v));
            assert(c * (u + v) + c * (u - v) == (2 * c) * u) by (nonlinear_arith);
            lemma_cong_modq(y[p] + y[p + t] * s, (2 * c) * u);
        } else {
            let u = x[p - t]; let v = x[p];
            lemma_modq_idem(u + v); lemma_modq_idem((u - v) * si);
            lemma_modq_idem(c * g[p - t]); lemma_modq_idem(c * g[p]);
            lemma_cong_refl(c); lemma_cong_refl(s);
            lemma_cong_arith(c, c, g[p - t], u + v);
            lemma_cong_arith(c, c, g[p], (u - v) * si);
            lemma_cong_trans(y[p - t], c * g[p - t], c * (u + v));
            lemma_cong_trans(y[p], c * g[p], c * ((u - v) * si));
            lemma_cong_arith(y[p], c * ((u - v) * si), s, s);
            assert((c * ((u - v) * si)) * s == (c * (u - v)) * (s * si)) by (nonlinear_arith);
            lemma_cong_refl(c * (u - v));
            lemma_cong_arith(c * (u - v), c * (u - v), s * si, 1);
            assert((c * (u - v)) * 1 == c * (u - v));
            lemma_cong_trans(y[p] * s, (c * (u - v)) * (s * si), c * (u - v));
            lemma_cong_arith(y[p - t], c * (u + v), y[p] * s, c * (u - v));
            assert(c * (u + v) - c * (u - v) == (2 * c) * v) by (nonlinear_arith);
            lemma_cong_modq(y[p - t] - y[p] * s, (2 * c) * v);
        }
    }
}

proof fn lemma_fwd_inv_gen(x: Seq<int>, m: int, t: int, c: int)
    requires table_facts(), pow2(m), pow2(t), pow2(x.len() as int), m * t == x.len()
    ensures fwd(scale(inv(x, m, t), c), 1, x.len() as int) == fwd(scale(x, c * m), m, t),
            inv(x, m, t).len() == x.len()
    decreases m
{
    reveal_with_fuel(inv, 1);
    let n = x.len() as int;
    if m > 1 {
        let mh = m / 2;
        assert(m % 2 == 0 && pow2(mh) && 2 * mh == m);
        assert(mh * (2 * t) == n) by (nonlinear_arith) requires m * t == n, 2 * mh == m;
        assert(2 * t <= n) by (nonlinear_arith) requires mh * (2 * t) == n, mh >= 1, t >= 1;
        assert(t <= 512);
        assert(pow2(2 * t));
        assert(mh <= 512) by (nonlinear_arith) requires mh * (2 * t) == n, t >= 1, n <= 1024;
        let ix = istage_seq(x, mh, t);
        lemma_fwd_inv_gen(ix, mh, 2 * t, c);
        // fwd(scale(ix, c*mh), mh, 2t) unfolds one forward stage with (mh, t)
        reveal_with_fuel(fwd, 1);
        assert((2 * t) / 2 == t);
        lemma_stage_istage(x, c * mh, mh, t);
        assert(2 * (c * mh) == c * m) by (nonlinear_arith) requires 2 * mh == m;
    } else {
        assert(c * 1 == c);
    }
}

/// every canonical x is the transform of inv_spec(x): fwd_spec(inv_spec(x, ninv)) == x
proof fn thm_fwd_inv(x: Seq<int>, ninv: int)
    requires table_facts(), pow2(x.len() as int), canon_seq(x), 0 <= ninv < 12289, cong(ninv * x.len(), 1)
    ensures fwd_spec(inv_spec(x, ninv)) == x, canon_seq(inv_spec(x, ninv)), inv_spec(x, ninv).len() == x.len()
{
    let n = x.len() as int;
    assert(n * 1 == n);
    lemma_fwd_inv_gen(x, n, 1, ninv);
    reveal_with_fuel(fwd, 1);
    let p = inv_spec(x, ninv);
    assert forall|k: int| 0 <= k < n implies 0 <= #[trigger] p[k] < 12289 by { lemma_modq_idem(ninv * inv(x, n, 1)[k]); }
    let g = scale(x, ninv * n);
    assert forall|k: int| 0 <= k < n implies #[trigger] g[k] == x[k] by {
        lemma_cong_refl(x[k]);
        lemma_cong_arith(ninv * n, 1, x[k], x[k]);
        assert(1 * x[k] == x[k]);
        lemma_cong_modq((ninv * n) * x[k], x[k]);
        vstd::arithmetic::div_mod::lemma_small_mod(x[k] as nat, 12289);
    }
    assert(g =~= x);
}
