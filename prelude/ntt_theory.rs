// Theory of the stage-level transform (no code involved):
//   thm_fwd_is_ntt : the composition of forward stages evaluates at the roots of X^n + 1
//   thm_inv_fwd    : the composition of inverse stages followed by scaling inverts it
//@include prelude/ntt_theory_proofs.rs
