// Lemma library over the NTT specification (no code involved).

proof fn lemma_cong_modq(x: int, y: int)
    ensures cong(x, y) <==> modq(x) == modq(y)
{
    assert(cong(x, y) <==> modq(x) == modq(y)) by (nonlinear_arith);
}
proof fn lemma_modq_idem(x: int)
    ensures modq(modq(x)) == modq(x), 0 <= modq(x) < 12289, cong(modq(x), x)
{
    assert(modq(modq(x)) == modq(x) && 0 <= modq(x) < 12289 && cong(modq(x), x)) by (nonlinear_arith);
}
proof fn lemma_divides(x: int) -> (k: int)
    requires x % 12289 == 0
    ensures x == 12289 * k
{
    vstd::arithmetic::div_mod::lemma_fundamental_div_mod(x, 12289);
    x / 12289
}
proof fn lemma_multiple(k: int)
    ensures (12289 * k) % 12289 == 0
{
    vstd::arithmetic::div_mod::lemma_mod_multiples_basic(k, 12289);
    assert(12289 * k == k * 12289) by (nonlinear_arith);
}
proof fn lemma_cong_arith(a: int, a2: int, b: int, b2: int)
    requires cong(a, a2), cong(b, b2)
    ensures cong(a + b, a2 + b2), cong(a - b, a2 - b2), cong(a * b, a2 * b2)
{
    let u = lemma_divides(a - a2);
    let w = lemma_divides(b - b2);
    lemma_multiple(u + w);
    lemma_multiple(u - w);
    assert((a + b) - (a2 + b2) == 12289 * (u + w)) by (nonlinear_arith) requires a - a2 == 12289 * u, b - b2 == 12289 * w;
    assert((a - b) - (a2 - b2) == 12289 * (u - w)) by (nonlinear_arith) requires a - a2 == 12289 * u, b - b2 == 12289 * w;
    assert(a * b - a2 * b2 == 12289 * (a * w + b2 * u)) by (nonlinear_arith)
        requires a - a2 == 12289 * u, b - b2 == 12289 * w;
    lemma_multiple(a * w + b2 * u);
}
proof fn lemma_cong_trans(a: int, b: int, c: int)
    requires cong(a, b), cong(b, c)
    ensures cong(a, c), cong(b, a)
{
    assert(cong(a, c) && cong(b, a)) by (nonlinear_arith) requires cong(a, b), cong(b, c);
}

//@include prelude/ntt_math_core.rs

/// what `verify` computes in the transform domain is the transform of c - s2*h
proof fn lemma_s1_is_ntt(c: Seq<int>, a: Seq<int>, b: Seq<int>, x: Seq<int>)
    requires table_facts(), pow2(c.len() as int), a.len() == c.len(), b.len() == c.len(), x.len() == c.len(),
             canon_seq(c), canon_seq(a), canon_seq(b),
             forall|i: int| 0 <= i < x.len() ==> #[trigger] x[i] == modq(ntt_of(c)[i] - modq(ntt_of(a)[i] * ntt_of(b)[i])),
    ensures ({ let p = Seq::new(c.len(), |k: int| modq(c[k] - negacyclic(a, b)[k])); x == ntt_of(p) && canon_seq(p) })
{
    let n = c.len() as int;
    let p = Seq::new(c.len(), |k: int| modq(c[k] - negacyclic(a, b)[k]));
    assert forall|k: int| 0 <= k < p.len() implies 0 <= #[trigger] p[k] < 12289 by { lemma_modq_idem(c[k] - negacyclic(a, b)[k]); }
    assert forall|i: int| 0 <= i < n implies #[trigger] x[i] == ntt_of(p)[i] by {
        let r = root(n, i);
        lemma_root_order(n, i);
        lemma_eval_hom(c, a, b, r);
        let ec = eval(c, r); let ea = eval(a, r); let eb = eval(b, r);
        lemma_modq_idem(ec); lemma_modq_idem(ea); lemma_modq_idem(eb);
        lemma_cong_arith(modq(ea), ea, modq(eb), eb);
        lemma_modq_idem(modq(ea) * modq(eb));
        lemma_cong_trans(modq(modq(ea) * modq(eb)), modq(ea) * modq(eb), ea * eb);
        lemma_cong_arith(modq(ec), ec, modq(modq(ea) * modq(eb)), ea * eb);
        // x[i] = modq(modq(ec) - modq(modq(ea)*modq(eb)))  ==  modq(ec - ea*eb)  ==  modq(eval(p, r))
        lemma_cong_modq(modq(ec) - modq(modq(ea) * modq(eb)), ec - ea * eb);
        lemma_cong_trans(eval(p, r), ec - ea * eb, ec - ea * eb);
        lemma_cong_modq(eval(p, r), ec - ea * eb);
    }
    assert(x =~= ntt_of(p));
}

/// the negacyclic product only depends on its first argument modulo q
proof fn lemma_s1_canon(c: Seq<int>, s2: Seq<int>, a: Seq<int>, h: Seq<int>)
    requires a.len() == s2.len(), c.len() == s2.len(), h.len() == s2.len(),
             forall|t: int| 0 <= t < s2.len() ==> #[trigger] a[t] == modq(s2[t]),
    ensures forall|k: int| 0 <= k < c.len() ==> modq(c[k] - #[trigger] negacyclic(a, h)[k]) == modq(c[k] - negacyclic(s2, h)[k])
{
    assert forall|t: int| 0 <= t < a.len() implies cong(#[trigger] a[t], s2[t]) by { lemma_modq_idem(s2[t]); }
    assert forall|k: int| 0 <= k < c.len() implies modq(c[k] - #[trigger] negacyclic(a, h)[k]) == modq(c[k] - negacyclic(s2, h)[k]) by {
        lemma_conv_cong(a, s2, h, k);
        lemma_cong_trans(c[k], c[k], c[k]);
        lemma_cong_arith(c[k], c[k], negacyclic(a, h)[k], negacyclic(s2, h)[k]);
        lemma_cong_modq(c[k] - negacyclic(a, h)[k], c[k] - negacyclic(s2, h)[k]);
    }
}
