// Lemma library over the NTT specification (no code involved).

//@include prelude/cong_lemmas.rs
//@include prelude/ntt_math_core.rs

/// what `verify` computes in the transform domain is the transform of c - s2*h
proof fn lemma_s1_is_ntt(c: Seq<int>, a: Seq<int>, b: Seq<int>, x: Seq<int>)
    requires table_facts(), pow2(c.len() as int), a.len() == c.len(), b.len() == c.len(), x.len() == c.len(),
             canon_seq(c), canon_seq(a), canon_seq(b),
             forall|i: int| 0 <= i < x.len() ==> #[trigger] x[i] == modq(ntt_of(c)[i] - modq(ntt_of(a)[i] * ntt_of(b)[i])),
    ensures ({ let p = Seq::new(c.len(), |k: int| modq(c[k] - negacyclic(a, b)[k])); x == ntt_of(p) && canon_seq(p) })
{
    let n = c.len() as int;
    let p = Seq::new(c.len(), |k: int| modq(c[k] - negacyclic(a, b)[k]));
    assert forall|k: int| 0 <= k < p.len() implies 0 <= #[trigger] p[k] < 12289 by { lemma_modq_idem(c[k] - negacyclic(a, b)[k]); }
    assert forall|i: int| 0 <= i < n implies #[trigger] x[i] == ntt_of(p)[i] by {
        let r = root(n, i);
        lemma_root_order(n, i);
        lemma_eval_hom(c, a, b, r);
        let ec = eval(c, r); let ea = eval(a, r); let eb = eval(b, r);
        lemma_modq_idem(ec); lemma_modq_idem(ea); lemma_modq_idem(eb);
        lemma_cong_arith(modq(ea), ea, modq(eb), eb);
        lemma_modq_idem(modq(ea) * modq(eb));
        lemma_cong_trans(modq(modq(ea) * modq(eb)), modq(ea) * modq(eb), ea * eb);
        lemma_cong_arith(modq(ec), ec, modq(modq(ea) * modq(eb)), ea * eb);
        // x[i] = modq(modq(ec) - modq(modq(ea)*modq(eb)))  ==  modq(ec - ea*eb)  ==  modq(eval(p, r))
        lemma_cong_modq(modq(ec) - modq(modq(ea) * modq(eb)), ec - ea * eb);
        lemma_cong_trans(eval(p, r), ec - ea * eb, ec - ea * eb);
        lemma_cong_modq(eval(p, r), ec - ea * eb);
    }
    assert(x =~= ntt_of(p));
}

/// the negacyclic product only depends on its first argument modulo q
proof fn lemma_s1_canon(c: Seq<int>, s2: Seq<int>, a: Seq<int>, h: Seq<int>)
    requires a.len() == s2.len(), c.len() == s2.len(), h.len() == s2.len(),
             forall|t: int| 0 <= t < s2.len() ==> #[trigger] a[t] == modq(s2[t]),
    ensures forall|k: int| 0 <= k < c.len() ==> modq(c[k] - #[trigger] negacyclic(a, h)[k]) == modq(c[k] - negacyclic(s2, h)[k])
{
    assert forall|t: int| 0 <= t < a.len() implies cong(#[trigger] a[t], s2[t]) by { lemma_modq_idem(s2[t]); }
    assert forall|k: int| 0 <= k < c.len() implies modq(c[k] - #[trigger] negacyclic(a, h)[k]) == modq(c[k] - negacyclic(s2, h)[k]) by {
        lemma_conv_cong(a, s2, h, k);
        lemma_cong_trans(c[k], c[k], c[k]);
        lemma_cong_arith(c[k], c[k], negacyclic(a, h)[k], negacyclic(s2, h)[k]);
        lemma_cong_modq(c[k] - negacyclic(a, h)[k], c[k] - negacyclic(s2, h)[k]);
    }
}
