// lemmas over the HashToPoint specification (no code involved)
proof fn lemma_h2p_mono(inp: Seq<u8>, k1: nat, k2: nat)
    requires k1 <= k2
    ensures h2p_prefix(inp, k1).len() <= h2p_prefix(inp, k2).len(),
            h2p_prefix(inp, k1) =~= h2p_prefix(inp, k2).subrange(0, h2p_prefix(inp, k1).len() as int),
    decreases k2
{
    reveal_with_fuel(h2p_prefix, 1);
    if k1 < k2 { lemma_h2p_mono(inp, k1, (k2 - 1) as nat); }
}
/// any two word counts that yield n coefficients yield the same coefficients
proof fn lemma_h2p_unique(inp: Seq<u8>, k1: nat, k2: nat)
    requires h2p_prefix(inp, k1).len() == h2p_prefix(inp, k2).len()
    ensures h2p_prefix(inp, k1) == h2p_prefix(inp, k2)
{
    if k1 <= k2 { lemma_h2p_mono(inp, k1, k2); } else { lemma_h2p_mono(inp, k2, k1); }
    assert(h2p_prefix(inp, k1) =~= h2p_prefix(inp, k2));
}
proof fn lemma_h2p_witness(inp: Seq<u8>, n: nat, k: nat)
    requires h2p_prefix(inp, k).len() == n
    ensures h2p_defined(inp, n), spec_h2p(inp, n) == h2p_prefix(inp, k)
{
    let k2 = choose|k2: nat| #[trigger] h2p_prefix(inp, k2).len() == n;
    lemma_h2p_unique(inp, k, k2);
}
proof fn lemma_h2p_range(inp: Seq<u8>, k: nat)
    ensures forall|i: int| 0 <= i < h2p_prefix(inp, k).len() ==> 0 <= #[trigger] h2p_prefix(inp, k)[i] < 12289
    decreases k
{
    reveal_with_fuel(h2p_prefix, 1);
    if k > 0 {
        lemma_h2p_range(inp, (k - 1) as nat);
        let s = h2p_prefix(inp, (k - 1) as nat);
        let t = word(inp, k - 1);
        assert forall|i: int| 0 <= i < h2p_prefix(inp, k).len() implies 0 <= #[trigger] h2p_prefix(inp, k)[i] < 12289 by {
            if i < s.len() { assert(h2p_prefix(inp, k)[i] == s[i]); }
        }
    }
}
/// C14: every coefficient is in [0, q); the result is a function of the string alone
/// (determinism is the fact that spec_h2p is a spec function of (inp, n));
/// the Falcon-512 point of a string is the first half of its Falcon-1024 point.
proof fn thm_c14_prefix(inp: Seq<u8>)
    requires h2p_defined(inp, 512), h2p_defined(inp, 1024)
    ensures spec_h2p(inp, 512) =~= spec_h2p(inp, 1024).subrange(0, 512),
            forall|i: int| 0 <= i < 1024 ==> 0 <= #[trigger] spec_h2p(inp, 1024)[i] < 12289,
{
    let k1 = choose|k: nat| #[trigger] h2p_prefix(inp, k).len() == 512;
    let k2 = choose|k: nat| #[trigger] h2p_prefix(inp, k).len() == 1024;
    if k1 <= k2 { lemma_h2p_mono(inp, k1, k2); } else { lemma_h2p_mono(inp, k2, k1); }
    lemma_h2p_range(inp, k2);
}
