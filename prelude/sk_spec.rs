// Secret-key encoding (Falcon specification 3.11.5): header 0101 llll, then f, g (n fields of
// 6 bits for n = 512, 5 bits for n = 1024) and F (n fields of 8 bits), each field a two's
// complement integer, most significant bit first; the value -2^(w-1) is forbidden.
pub open spec fn b2i(b: bool) -> int { if b { 1 } else { 0 } }
#[verifier::opaque]
pub open spec fn p2(j: nat) -> int
    decreases j
{
    if j == 0 { 1 } else { 2 * p2((j - 1) as nat) }
}
/// unsigned value of the w bits of s starting at p, most significant first
#[verifier::opaque]
pub open spec fn ufield(s: Seq<bool>, p: int, w: nat) -> int
    decreases w
{
    if w == 0 { 0 } else { 2 * ufield(s, p, (w - 1) as nat) + b2i(s[p + w - 1]) }
}
/// two's complement value of the w-bit field at p
pub open spec fn sfield(s: Seq<bool>, p: int, w: nat) -> int {
    ufield(s, p, w) - (if s[p] { p2(w) } else { 0 })
}
pub open spec fn xbits(x: Seq<u8>) -> Seq<bool> { Seq::new((8 * x.len()) as nat, |p: int| bit(x, p)) }
pub open spec fn sk_width(n: int) -> nat { if n == 512 { 6 } else { 5 } }
pub open spec fn sk_len(n: int) -> int { if n == 512 { 1281 } else { 2305 } }
pub open spec fn lg(n: int) -> int { if n == 512 { 9 } else { 10 } }
pub open spec fn in_range_w(v: int, w: nat) -> bool { -p2((w - 1) as nat) < v < p2((w - 1) as nat) }
#[verifier::opaque]
pub open spec fn sk_f(x: Seq<u8>, n: int, i: int) -> int { sfield(xbits(x), 8 + sk_width(n) * i, sk_width(n)) }
#[verifier::opaque]
pub open spec fn sk_g(x: Seq<u8>, n: int, i: int) -> int { sfield(xbits(x), 8 + sk_width(n) * n + sk_width(n) * i, sk_width(n)) }
#[verifier::opaque]
pub open spec fn sk_cf(x: Seq<u8>, n: int, i: int) -> int { sfield(xbits(x), 8 + 2 * sk_width(n) * n + 8 * i, 8) }
/// x is the encoding of the secret polynomials (f, g, F) for degree n
pub open spec fn is_sk_layout(x: Seq<u8>, f: Seq<int>, g: Seq<int>, cf: Seq<int>, n: int) -> bool {
    &&& (n == 512 || n == 1024)
    &&& f.len() == n && g.len() == n && cf.len() == n
    &&& x.len() == sk_len(n)
    &&& x[0] as int == 80 + lg(n)
    &&& forall|i: int| 0 <= i < n ==> #[trigger] sk_f(x, n, i) == f[i] && in_range_w(f[i], sk_width(n))
    &&& forall|i: int| 0 <= i < n ==> #[trigger] sk_g(x, n, i) == g[i] && in_range_w(g[i], sk_width(n))
    &&& forall|i: int| 0 <= i < n ==> #[trigger] sk_cf(x, n, i) == cf[i] && in_range_w(cf[i], 8)
}
pub open spec fn ilog2_spec(x: int) -> int
    decreases x
{
    if x <= 1 { 0 } else { 1 + ilog2_spec(x / 2) }
}
