// PENDING PROOFS (assumed for now)
#[verifier::external_body]
proof fn thm_fwd_is_ntt(a: Seq<int>)
    requires table_facts(), pow2(a.len() as int), canon_seq(a)
    ensures fwd_spec(a) == ntt_of(a)
{ }
#[verifier::external_body]
proof fn thm_inv_fwd(a: Seq<int>, ninv: int)
    requires table_facts(), pow2(a.len() as int), canon_seq(a), 0 <= ninv < 12289, cong(ninv * a.len(), 1)
    ensures inv_spec(fwd_spec(a), ninv) == a
{ }
