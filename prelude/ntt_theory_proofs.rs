// Proofs that the stage compositions are the transform (no code involved).

/// sum_{l<k} a0[j + l*t] * rho^l : the reduction of a0 modulo X^t - rho, coefficient j
#[verifier::opaque]
pub open spec fn bsum(a0: Seq<int>, j: int, t: int, rho: int, k: nat) -> int
    decreases k
{
    if k == 0 { 0 } else { bsum(a0, j, t, rho, (k - 1) as nat) + a0[j + (k - 1) * t] * powi(rho, (k - 1) as nat) }
}
proof fn lemma_bsum_step(a0: Seq<int>, j: int, t: int, rho: int, k: nat)
    ensures bsum(a0, j, t, rho, k + 1) == bsum(a0, j, t, rho, k) + a0[j + k * t] * powi(rho, k), bsum(a0, j, t, rho, 0) == 0
{
    reveal_with_fuel(bsum, 2);
}
/// the reduction only depends on rho modulo q
proof fn lemma_bsum_cong(a0: Seq<int>, j: int, t: int, r1: int, r2: int, k: nat)
    requires cong(r1, r2)
    ensures cong(bsum(a0, j, t, r1, k), bsum(a0, j, t, r2, k))
    decreases k
{
    if k == 0 { lemma_bsum_step(a0, j, t, r1, 0); lemma_bsum_step(a0, j, t, r2, 0); } else {
        let kk = (k - 1) as nat;
        lemma_bsum_cong(a0, j, t, r1, r2, kk);
        lemma_bsum_step(a0, j, t, r1, kk);
        lemma_bsum_step(a0, j, t, r2, kk);
        lemma_powi_cong(r1, r2, kk);
        lemma_cong_refl(a0[j + kk * t]);
        lemma_cong_arith(a0[j + kk * t], a0[j + kk * t], powi(r1, kk), powi(r2, kk));
        lemma_cong_arith(bsum(a0, j, t, r1, kk), bsum(a0, j, t, r2, kk), a0[j + kk * t] * powi(r1, kk), a0[j + kk * t] * powi(r2, kk));
    }
}
/// splitting a reduction modulo X^(2t) - s^2 into the two reductions modulo X^t -+ s  (exact over Z)
proof fn lemma_bsum_split(a0: Seq<int>, j: int, t: int, s: int, k: nat)
    ensures bsum(a0, j, t, s, 2 * k) == bsum(a0, j, 2 * t, s * s, k) + s * bsum(a0, j + t, 2 * t, s * s, k)
    decreases k
{
    if k == 0 {
        lemma_bsum_step(a0, j, t, s, 0); lemma_bsum_step(a0, j, 2 * t, s * s, 0); lemma_bsum_step(a0, j + t, 2 * t, s * s, 0);
        assert(s * 0 == 0);
    } else {
        let kk = (k - 1) as nat;
        lemma_bsum_split(a0, j, t, s, kk);
        lemma_bsum_step(a0, j, t, s, 2 * kk);
        lemma_bsum_step(a0, j, t, s, 2 * kk + 1);
        lemma_bsum_step(a0, j, 2 * t, s * s, kk);
        lemma_bsum_step(a0, j + t, 2 * t, s * s, kk);
        lemma_powi_sq(s, kk);
        let p = powi(s * s, kk);
        assert(j + (2 * kk) * t == j + kk * (2 * t)) by (nonlinear_arith);
        assert(j + (2 * kk + 1) * t == (j + t) + kk * (2 * t)) by (nonlinear_arith);
        let x = a0[j + kk * (2 * t)];
        let y = a0[(j + t) + kk * (2 * t)];
        let e = bsum(a0, j + t, 2 * t, s * s, kk);
        assert(y * (s * p) == s * (y * p)) by (nonlinear_arith);
        assert(s * (e + y * p) == s * e + s * (y * p)) by (nonlinear_arith);
    }
}
proof fn lemma_bsum_is_eval(a0: Seq<int>, r: int, k: nat)
    ensures bsum(a0, 0, 1, r, k) == eval_upto(a0, r, k)
    decreases k
{
    if k == 0 { lemma_bsum_step(a0, 0, 1, r, 0); lemma_eval_step(a0, r, 0); } else {
        let kk = (k - 1) as nat;
        lemma_bsum_is_eval(a0, r, kk);
        lemma_bsum_step(a0, 0, 1, r, kk);
        lemma_eval_step(a0, r, kk);
        assert(0 + kk * 1 == kk as int);
    }
}

/// the state of the forward transform with m blocks of size t: block i is a0 mod (X^t - root(m,i))
pub open spec fn block_inv(a: Seq<int>, a0: Seq<int>, m: int, t: int) -> bool {
    &&& a.len() == a0.len()
    &&& canon_seq(a)
    &&& forall|p: int| 0 <= p < a.len() ==> cong(#[trigger] a[p], bsum(a0, p % t, t, root(m, p / t), m as nat))
}

proof fn lemma_divmod_halves(p: int, t: int)
    requires t >= 1, p >= 0
    ensures ({ let w = 2 * t; let i = p / w; let j = p % w;
               &&& 0 <= j < w && p == i * w + j && i >= 0
               &&& (j < t ==> p / t == 2 * i && p % t == j && (p + t) / w == i && (p + t) % w == j + t)
               &&& (j >= t ==> p / t == 2 * i + 1 && p % t == j - t && (p - t) / w == i && (p - t) % w == j - t) })
{
    let w = 2 * t; let i = p / w; let j = p % w;
    vstd::arithmetic::div_mod::lemma_fundamental_div_mod(p, w);
    vstd::arithmetic::div_mod::lemma_div_pos_is_pos(p, w);
    assert(p == i * w + j) by (nonlinear_arith) requires p == w * i + j;
    if j < t {
        assert(p == (2 * i) * t + j) by (nonlinear_arith) requires p == i * w + j, w == 2 * t;
        vstd::arithmetic::div_mod::lemma_fundamental_div_mod_converse(p, t, 2 * i, j);
        vstd::arithmetic::div_mod::lemma_fundamental_div_mod_converse(p + t, w, i, j + t);
    } else {
        assert(p == (2 * i + 1) * t + (j - t)) by (nonlinear_arith) requires p == i * w + j, w == 2 * t;
        vstd::arithmetic::div_mod::lemma_fundamental_div_mod_converse(p, t, 2 * i + 1, j - t);
        vstd::arithmetic::div_mod::lemma_fundamental_div_mod_converse(p - t, w, i, j - t);
    }
}

/// one forward stage refines every block into its two halves
proof fn lemma_stage_step(a: Seq<int>, a0: Seq<int>, m: int, t: int)
    requires table_facts(), pow2(m), m <= 512, t >= 1, a0.len() == m * (2 * t), block_inv(a, a0, m, 2 * t)
    ensures block_inv(stage_seq(a, m, t), a0, 2 * m, t)
{
    let b = stage_seq(a, m, t);
    let n = a.len() as int;
    let w = 2 * t;
    assert forall|p: int| 0 <= p < n implies 0 <= #[trigger] b[p] < 12289
        && cong(b[p], bsum(a0, p % t, t, root(2 * m, p / t), (2 * m) as nat)) by {
        lemma_divmod_halves(p, t);
        let i = p / w; let j = p % w;
        assert(i < m) by (nonlinear_arith) requires p == i * w + j, p < m * w, j >= 0, w > 0;
        let s = tab(m + i);
        lemma_tab_square(m, i);
        let rho = root(m, i);
        if j < t {
            let x = a[p]; let y = a[p + t];
            assert((i + 1) * w <= m * w && (i + 1) * w == i * w + w) by (nonlinear_arith) requires i + 1 <= m, w >= 0;
            assert(p + t < n);
            lemma_modq_idem(x + y * s);
            // a[p] ~ B(j), a[p+t] ~ B(j+t)
            let bj = bsum(a0, j, w, rho, m as nat);
            let bjt = bsum(a0, j + t, w, rho, m as nat);
            assert(cong(x, bj));
            assert(cong(y, bjt));
            lemma_bsum_cong(a0, j, w, rho, s * s, m as nat);
            lemma_bsum_cong(a0, j + t, w, rho, s * s, m as nat);
            lemma_cong_trans(rho, s * s, s * s);
            let cj = bsum(a0, j, w, s * s, m as nat);
            let cjt = bsum(a0, j + t, w, s * s, m as nat);
            lemma_cong_trans(x, bj, cj);
            lemma_cong_trans(y, bjt, cjt);
            lemma_cong_refl(s);
            lemma_cong_arith(y, cjt, s, s);
            lemma_cong_arith(x, cj, y * s, cjt * s);
            lemma_bsum_split(a0, j, t, s, m as nat);
            assert(cjt * s == s * cjt) by (nonlinear_arith);
            lemma_cong_trans(b[p], x + y * s, cj + cjt * s);
            assert(root(2 * m, 2 * i) == s);
        } else {
            let x = a[p - t]; let y = a[p];
            lemma_modq_idem(x - y * s);
            let bj = bsum(a0, j - t, w, rho, m as nat);
            let bjt = bsum(a0, j, w, rho, m as nat);
            assert(cong(x, bj));
            assert(cong(y, bjt));
            let ns = -s;
            assert(ns * ns == s * s) by (nonlinear_arith) requires ns == -s;
            lemma_cong_trans(rho, s * s, s * s);
            lemma_bsum_cong(a0, j - t, w, rho, ns * ns, m as nat);
            lemma_bsum_cong(a0, j, w, rho, ns * ns, m as nat);
            let cj = bsum(a0, j - t, w, ns * ns, m as nat);
            let cjt = bsum(a0, j, w, ns * ns, m as nat);
            lemma_cong_trans(x, bj, cj);
            lemma_cong_trans(y, bjt, cjt);
            lemma_cong_refl(s);
            lemma_cong_arith(y, cjt, s, s);
            lemma_cong_arith(x, cj, y * s, cjt * s);
            lemma_bsum_split(a0, j - t, t, ns, m as nat);
            assert((j - t) + t == j);
            assert(cj - cjt * s == cj + ns * cjt) by (nonlinear_arith) requires ns == -s;
            lemma_cong_trans(b[p], x - y * s, cj - cjt * s);
            // root(2m, 2i+1) = modq(-s) ~ -s
            assert((2 * i + 1) / 2 == i && (2 * i + 1) % 2 == 1);
            lemma_cong_neg_modq(s);
            lemma_bsum_cong(a0, j - t, t, modq(-s), ns, (2 * m) as nat);
            lemma_cong_trans(b[p], bsum(a0, j - t, t, ns, (2 * m) as nat), bsum(a0, j - t, t, modq(-s), (2 * m) as nat));
        }
    }
}

proof fn lemma_fwd_blocks(a: Seq<int>, a0: Seq<int>, m: int, t: int)
    requires table_facts(), pow2(m), pow2(t), pow2(a0.len() as int), m * t == a0.len(), block_inv(a, a0, m, t)
    ensures block_inv(fwd(a, m, t), a0, a0.len() as int, 1)
    decreases t
{
    reveal_with_fuel(fwd, 1);
    if t > 1 {
        let n = a0.len() as int;
        assert(t % 2 == 0 && pow2(t / 2) && 2 * (t / 2) == t);
        assert(m * (2 * (t / 2)) == n);
        assert(m <= 512) by (nonlinear_arith) requires m * t == n, t >= 2, n <= 1024, m >= 1;
        lemma_stage_step(a, a0, m, t / 2);
        assert((2 * m) * (t / 2) == n) by (nonlinear_arith) requires m * (2 * (t / 2)) == n;
        lemma_fwd_blocks(stage_seq(a, m, t / 2), a0, 2 * m, t / 2);
    } else {
        assert(m == a0.len()) by (nonlinear_arith) requires m * t == a0.len(), t == 1;
    }
}

/// the composition of forward stages evaluates at the roots of X^n + 1
proof fn thm_fwd_is_ntt(a: Seq<int>)
    requires table_facts(), pow2(a.len() as int), canon_seq(a)
    ensures fwd_spec(a) == ntt_of(a)
{
    let n = a.len() as int;
    assert forall|p: int| 0 <= p < n implies cong(#[trigger] a[p], bsum(a, p % n, n, root(1, p / n), 1)) by {
        vstd::arithmetic::div_mod::lemma_fundamental_div_mod_converse(p, n, 0, p);
        lemma_bsum_step(a, p, n, root(1, 0), 0);
        lemma_powi_step(root(1, 0), 0);
        assert(p + 0 * n == p);
        assert(a[p] * 1 == a[p]);
    }
    assert(1 * n == n);
    lemma_fwd_blocks(a, a, 1, n);
    let f = fwd(a, 1, n);
    assert forall|p: int| 0 <= p < n implies #[trigger] f[p] == ntt_of(a)[p] by {
        assert(p % 1 == 0 && p / 1 == p);
        lemma_bsum_is_eval(a, root(n, p), n as nat);
        lemma_cong_modq(f[p], eval(a, root(n, p)));
        lemma_modq_idem(f[p]);
        assert(modq(f[p]) == f[p]) by { vstd::arithmetic::div_mod::lemma_small_mod(f[p] as nat, 12289); }
    }
    assert(f =~= ntt_of(a));
}

// ------------------------------------------------------------------------------------------
// inverse direction

proof fn lemma_stage_canon(a: Seq<int>, m: int, t: int)
    ensures canon_seq(stage_seq(a, m, t)), stage_seq(a, m, t).len() == a.len()
{
    assert forall|p: int| 0 <= p < a.len() implies 0 <= #[trigger] stage_seq(a, m, t)[p] < 12289 by {
        let w = 2 * t; let i = p / w; let j = p % w; let s = tab(m + i);
        lemma_modq_idem(a[p] + a[p + t] * s);
        lemma_modq_idem(a[p - t] - a[p] * s);
    }
}
proof fn lemma_fwd_canon(a: Seq<int>, m: int, t: int)
    requires canon_seq(a)
    ensures canon_seq(fwd(a, m, t)), fwd(a, m, t).len() == a.len()
    decreases t
{
    reveal_with_fuel(fwd, 1);
    if t > 1 { lemma_stage_canon(a, m, t / 2); lemma_fwd_canon(stage_seq(a, m, t / 2), 2 * m, t / 2); }
}

/// an inverse stage undoes the matching forward stage up to a factor 2 (on scaled inputs)
proof fn lemma_istage_stage(a: Seq<int>, c: int, h: int, t: int)
    requires table_facts(), pow2(h), h <= 512, t >= 1, a.len() == h * (2 * t)
    ensures istage_seq(scale(stage_seq(a, h, t), c), h, t) =~= scale(a, 2 * c)
{
    let n = a.len() as int;
    let w = 2 * t;
    let f = stage_seq(a, h, t);
    let x = scale(f, c);
    let y = istage_seq(x, h, t);
    assert forall|p: int| 0 <= p < n implies #[trigger] y[p] == scale(a, 2 * c)[p] by {
        lemma_divmod_halves(p, t);
        let i = p / w; let j = p % w;
        assert(i < h) by (nonlinear_arith) requires p == i * w + j, p < h * w, j >= 0, w > 0;
        let s = tab(h + i);
        let si = tabi(h + i);
        assert(cong(s * si, 1));
        if j < t {
            assert((i + 1) * w <= h * w && (i + 1) * w == i * w + w) by (nonlinear_arith) requires i + 1 <= h, w >= 0;
            assert(p + t < n);
            let u = a[p]; let v = a[p + t];
            // f[p] ~ u + v s ; f[p+t] ~ u - v s
            lemma_modq_idem(u + v * s);
            lemma_modq_idem(u - v * s);
            lemma_modq_idem(c * f[p]);
            lemma_modq_idem(c * f[p + t]);
            lemma_cong_refl(c);
            lemma_cong_arith(c, c, f[p], u + v * s);
            lemma_cong_arith(c, c, f[p + t], u - v * s);
            lemma_cong_trans(x[p], c * f[p], c * (u + v * s));
            lemma_cong_trans(x[p + t], c * f[p + t], c * (u - v * s));
            lemma_cong_arith(x[p], c * (u + v * s), x[p + t], c * (u - v * s));
            assert(c * (u + v * s) + c * (u - v * s) == (2 * c) * u) by (nonlinear_arith);
            lemma_cong_modq(x[p] + x[p + t], (2 * c) * u);
        } else {
            let u = a[p - t]; let v = a[p];
            lemma_modq_idem(u + v * s);
            lemma_modq_idem(u - v * s);
            lemma_modq_idem(c * f[p - t]);
            lemma_modq_idem(c * f[p]);
            lemma_cong_refl(c);
            lemma_cong_arith(c, c, f[p - t], u + v * s);
            lemma_cong_arith(c, c, f[p], u - v * s);
            lemma_cong_trans(x[p - t], c * f[p - t], c * (u + v * s));
            lemma_cong_trans(x[p], c * f[p], c * (u - v * s));
            lemma_cong_arith(x[p - t], c * (u + v * s), x[p], c * (u - v * s));
            assert(c * (u + v * s) - c * (u - v * s) == ((2 * c) * v) * s) by (nonlinear_arith);
            lemma_cong_refl(si);
            lemma_cong_arith(x[p - t] - x[p], ((2 * c) * v) * s, si, si);
            assert((((2 * c) * v) * s) * si == ((2 * c) * v) * (s * si)) by (nonlinear_arith);
            lemma_cong_refl((2 * c) * v);
            lemma_cong_arith((2 * c) * v, (2 * c) * v, s * si, 1);
            assert(((2 * c) * v) * 1 == (2 * c) * v);
            lemma_cong_trans((x[p - t] - x[p]) * si, ((2 * c) * v) * (s * si), (2 * c) * v);
            lemma_cong_modq((x[p - t] - x[p]) * si, (2 * c) * v);
        }
    }
}

proof fn lemma_inv_fwd_gen(a: Seq<int>, m: int, t: int, c: int)
    requires table_facts(), pow2(m), pow2(t), pow2(a.len() as int), m * t == a.len(), canon_seq(a)
    ensures inv(scale(fwd(a, m, t), c), a.len() as int, 1) == inv(scale(a, c * t), m, t)
    decreases t
{
    reveal_with_fuel(fwd, 1);
    let n = a.len() as int;
    if t > 1 {
        let th = t / 2;
        assert(t % 2 == 0 && pow2(th) && 2 * th == t);
        assert(m <= 512) by (nonlinear_arith) requires m * t == n, t >= 2, n <= 1024, m >= 1;
        let f = stage_seq(a, m, th);
        lemma_stage_canon(a, m, th);
        assert((2 * m) * th == n) by (nonlinear_arith) requires m * t == n, 2 * th == t;
        lemma_inv_fwd_gen(f, 2 * m, th, c);
        // inv(scale(f, c*th), 2m, th) unfolds one inverse stage with h = m
        reveal_with_fuel(inv, 1);
        assert((2 * m) / 2 == m);
        assert(n == m * (2 * th)) by (nonlinear_arith) requires m * t == n, 2 * th == t;
        lemma_istage_stage(a, c * th, m, th);
        assert(2 * (c * th) == c * t) by (nonlinear_arith) requires 2 * th == t;
    } else {
        assert(m == n) by (nonlinear_arith) requires m * t == n, t == 1;
        assert(c * 1 == c);
    }
}

/// the composition of inverse stages followed by scaling with n^-1 inverts the forward transform
proof fn thm_inv_fwd(a: Seq<int>, ninv: int)
    requires table_facts(), pow2(a.len() as int), canon_seq(a), 0 <= ninv < 12289, cong(ninv * a.len(), 1)
    ensures inv_spec(fwd_spec(a), ninv) == a
{
    let n = a.len() as int;
    let f = fwd(a, 1, n);
    assert(1 * n == n);
    lemma_fwd_canon(a, 1, n);
    lemma_inv_fwd_gen(a, 1, n, 1);
    assert(scale(f, 1) =~= f) by {
        assert forall|p: int| 0 <= p < n implies #[trigger] scale(f, 1)[p] == f[p] by {
            assert(1 * f[p] == f[p]);
            vstd::arithmetic::div_mod::lemma_small_mod(f[p] as nat, 12289);
        }
    }
    reveal_with_fuel(inv, 1);
    assert(1 * n == n);
    let g = scale(a, n);
    assert(inv(f, n, 1) == g);
    assert forall|p: int| 0 <= p < n implies #[trigger] scale(g, ninv)[p] == a[p] by {
        lemma_modq_idem(n * a[p]);
        lemma_cong_refl(ninv);
        lemma_cong_arith(ninv, ninv, g[p], n * a[p]);
        assert(ninv * (n * a[p]) == (ninv * n) * a[p]) by (nonlinear_arith);
        lemma_cong_refl(a[p]);
        lemma_cong_arith(ninv * n, 1, a[p], a[p]);
        assert(1 * a[p] == a[p]);
        lemma_cong_trans(ninv * g[p], (ninv * n) * a[p], a[p]);
        lemma_cong_modq(ninv * g[p], a[p]);
        vstd::arithmetic::div_mod::lemma_small_mod(a[p] as nat, 12289);
    }
    assert(scale(g, ninv) =~= a);
}
