// Algorithm 3 (HashToPoint) over an abstract SHAKE-256 output stream.
pub uninterp spec fn shake(inp: Seq<u8>, i: int) -> u8;

/// k-th big-endian 16-bit word of the output stream
pub open spec fn word(inp: Seq<u8>, k: int) -> int {
    256 * (shake(inp, 2 * k) as int) + (shake(inp, 2 * k + 1) as int)
}
/// the coefficients accepted among the first k words: keep t < 61445 (= 5q), reduce mod q
#[verifier::opaque]
pub open spec fn h2p_prefix(inp: Seq<u8>, k: nat) -> Seq<int>
    decreases k
{
    if k == 0 { Seq::<int>::empty() } else {
        let s = h2p_prefix(inp, (k - 1) as nat);
        let t = word(inp, k - 1);
        if t < 61445 { s.push(t % 12289) } else { s }
    }
}
/// the sampler has collected n coefficients after some finite number of words
pub open spec fn h2p_defined(inp: Seq<u8>, n: nat) -> bool {
    exists|k: nat| #[trigger] h2p_prefix(inp, k).len() == n
}
/// HashToPoint(inp, q, n): the first n accepted coefficients
pub open spec fn spec_h2p(inp: Seq<u8>, n: nat) -> Seq<int> {
    let k = choose|k: nat| #[trigger] h2p_prefix(inp, k).len() == n;
    h2p_prefix(inp, k)
}
