// Public-key encoding (Falcon specification 3.11.4): one header byte 0000 llll (l = log2 n), then
// the n coefficients of h, 14 bits each, most significant bit first; 897 / 1793 bytes.
pub open spec fn val14(x: Seq<u8>, p: int) -> int {
    8192 * bi(x, p) + 4096 * bi(x, p + 1) + 2048 * bi(x, p + 2) + 1024 * bi(x, p + 3) + 512 * bi(x, p + 4)
        + 256 * bi(x, p + 5) + 128 * bi(x, p + 6) + 64 * bi(x, p + 7) + 32 * bi(x, p + 8) + 16 * bi(x, p + 9)
        + 8 * bi(x, p + 10) + 4 * bi(x, p + 11) + 2 * bi(x, p + 12) + bi(x, p + 13)
}
/// the 14-bit field of coefficient i
#[verifier::opaque]
pub open spec fn pkv(x: Seq<u8>, i: int) -> int { val14(x, 8 + 14 * i) }
pub open spec fn lg(n: int) -> int { if n == 512 { 9 } else { 10 } }
pub open spec fn pk_len(n: int) -> int { if n == 512 { 897 } else { 1793 } }
/// x is the encoding of the public-key polynomial h for degree n
pub open spec fn is_pk_layout(x: Seq<u8>, h: Seq<int>, n: int) -> bool {
    &&& (n == 512 || n == 1024)
    &&& h.len() == n
    &&& x.len() == pk_len(n)
    &&& x[0] as int == lg(n)
    &&& forall|i: int| 0 <= i < n ==> #[trigger] pkv(x, i) == h[i]
}
pub open spec fn ilog2_spec(x: int) -> int
    decreases x
{
    if x <= 1 { 0 } else { 1 + ilog2_spec(x / 2) }
}
