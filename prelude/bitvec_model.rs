/// bit_vec::BitVec (dependency model, assumed; cross-checked against the real crate by
/// `falcon-verif-replay model-bitvec`): view = Seq<bool>; from_bytes = MSB-first bits of the
/// bytes; to_bytes packs MSB-first and zero-pads the last byte.
pub struct BitVec { pub ghost bits: Seq<bool> }
impl BitVec {
    pub open spec fn view(&self) -> Seq<bool> { self.bits }
    #[verifier::external_body]
    pub fn new() -> (r: BitVec)
        ensures r@.len() == 0
    { unimplemented!() }
    #[verifier::external_body]
    pub fn from_bytes(x: &[u8]) -> (r: BitVec)
        ensures r@.len() == 8 * x@.len(),
                forall|p: int| 0 <= p < 8 * x@.len() ==> r@[p] == bit(x@, p),
    { unimplemented!() }
    #[verifier::external_body]
    pub fn len(&self) -> (r: usize) ensures r == self@.len() { unimplemented!() }
    #[verifier::external_body]
    pub fn idx(&self, i: usize) -> (r: bool)
        requires i < self@.len()
        ensures r == self@[i as int]
    { unimplemented!() }
    #[verifier::external_body]
    pub fn get(&self, i: usize) -> (r: Option<bool>)
        ensures i < self@.len() ==> r == Some(self@[i as int]),
                i >= self@.len() ==> r is None,
    { unimplemented!() }
    #[verifier::external_body]
    pub fn push(&mut self, b: bool)
        ensures final(self)@ == old(self)@.push(b)
    { unimplemented!() }
    #[verifier::external_body]
    pub fn append(&mut self, other: &mut BitVec)
        ensures final(self)@ == old(self)@ + old(other)@, final(other)@.len() == 0
    { unimplemented!() }
    #[verifier::external_body]
    pub fn to_bytes(&self) -> (r: Vec<u8>)
        ensures r@.len() == (self@.len() + 7) / 8,
                forall|p: int| 0 <= p < self@.len() ==> bit(r@, p) == self@[p],
                forall|p: int| self@.len() <= p < 8 * r@.len() ==> !bit(r@, p),
    { unimplemented!() }
    /// itertools `chunks(w)` over `self.iter().skip(skip).take(take)`: the c-th chunk as a BitVec
    /// (introduced by rewrite rule R7)
    #[verifier::external_body]
    pub fn vx_chunk(&self, skip: usize, take: usize, c: usize, w: usize) -> (r: BitVec)
        requires w > 0, c < ch_n(self@.len() as int, skip as int, take as int, w as int)
        ensures ({
            let lo = ch_lo(self@.len() as int, skip as int);
            let hi = ch_hi(self@.len() as int, skip as int, take as int);
            let a = lo + c * w;
            let b = if a + w <= hi { a + w } else { hi };
            a < hi && r@ == self@.subrange(a, b) && 1 <= r@.len() <= w
        })
    { unimplemented!() }
    /// number of chunks of `self.iter().skip(skip).take(take).chunks(w)`
    #[verifier::external_body]
    pub fn vx_nchunks(&self, skip: usize, take: usize, w: usize) -> (r: usize)
        requires w > 0
        ensures r as int == ch_n(self@.len() as int, skip as int, take as int, w as int)
    { unimplemented!() }
}
pub open spec fn ch_lo(len: int, skip: int) -> int { if skip <= len { skip } else { len } }
pub open spec fn ch_hi(len: int, skip: int, take: int) -> int {
    if ch_lo(len, skip) + take <= len { ch_lo(len, skip) + take } else { len }
}
pub open spec fn ch_n(len: int, skip: int, take: int, w: int) -> int {
    (ch_hi(len, skip, take) - ch_lo(len, skip) + w - 1) / w
}
