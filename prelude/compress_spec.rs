// ------------------------------------------------------------------------------------------
// Algorithm 17 (Compress) as a pointwise specification

pub open spec fn cabs(c: int) -> int { if c < 0 { -c } else { c } }
pub open spec fn clen(c: int) -> int { 9 + cabs(c) / 128 }
/// bit offset of coefficient i in the encoding of v
#[verifier::opaque]
pub open spec fn off(v: Seq<int>, i: int) -> int
    decreases i
{
    if i <= 0 { 0 } else { off(v, i - 1) + clen(v[i - 1]) }
}
/// coefficient c is written at bit p: sign bit, 7 low bits MSB first, |c|>>7 zeros, a one
pub open spec fn coef_at(x: Seq<u8>, p: int, c: int) -> bool {
    &&& 0 <= p && p + clen(c) <= nbits(x)
    &&& bit(x, p) == (c < 0)
    &&& low7(x, p + 1) == cabs(c) % 128
    &&& zeros(x, p + 8, p + 8 + cabs(c) / 128)
    &&& bit(x, p + 8 + cabs(c) / 128)
}
pub open spec fn coef_i(x: Seq<u8>, v: Seq<int>, i: int) -> bool { coef_at(x, off(v, i), v[i]) }
/// x is the zero-padded Algorithm-17 encoding of the non-empty vector v
pub open spec fn encodes(x: Seq<u8>, v: Seq<int>) -> bool {
    &&& v.len() >= 1
    &&& forall|i: int| 0 <= i < v.len() ==> #[trigger] coef_i(x, v, i)
    &&& all_zero_from(x, off(v, v.len() as int))
}
/// the contract of `compress` as a relation between (v, byte budget) and the result
pub open spec fn compress_post(v: Seq<int>, l: int, r: Option<Seq<u8>>) -> bool {
    match r {
        Some(b) => b.len() == l && encodes(b, v),
        None => v.len() == 0 || off(v, v.len() as int) > 8 * l,
    }
}

