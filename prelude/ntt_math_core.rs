// Core algebra over the NTT specification (no code involved): powers, evaluation, the negacyclic
// shift, and the facts `verify` needs (lemma_root_order, lemma_eval_hom, lemma_conv_cong).

proof fn lemma_powi_step(b: int, e: nat)
    ensures powi(b, e + 1) == b * powi(b, e), powi(b, 0) == 1
{
    reveal_with_fuel(powi, 2);
}
proof fn lemma_powi_cong(x: int, y: int, e: nat)
    requires cong(x, y)
    ensures cong(powi(x, e), powi(y, e))
    decreases e
{
    reveal_with_fuel(powi, 2);
    if e == 0 { lemma_cong_trans(1, 1, 1); } else {
        lemma_powi_cong(x, y, (e - 1) as nat);
        lemma_cong_arith(x, y, powi(x, (e - 1) as nat), powi(y, (e - 1) as nat));
    }
}
/// s^(2k) == (s*s)^k  and  s^(2k+1) == s * (s*s)^k
proof fn lemma_powi_sq(s: int, k: nat)
    ensures powi(s, 2 * k) == powi(s * s, k), powi(s, 2 * k + 1) == s * powi(s * s, k)
    decreases k
{
    lemma_powi_step(s, 0);
    if k == 0 {
        lemma_powi_step(s * s, 0);
    } else {
        lemma_powi_sq(s, (k - 1) as nat);
        lemma_powi_step(s, (2 * k - 1) as nat);
        lemma_powi_step(s, 2 * k);
        lemma_powi_step(s * s, (k - 1) as nat);
        let q = powi(s * s, (k - 1) as nat);
        assert(s * (s * q) == (s * s) * q) by (nonlinear_arith);
        assert(s * ((s * s) * q) == s * (s * s * q)) by (nonlinear_arith);
    }
}
proof fn lemma_cong_neg_modq(x: int)
    ensures cong(modq(-x), -x)
{
    lemma_modq_idem(-x);
}

/// squares of table entries walk up the tree of roots: tab(m+i)^2 == root(m, i)
proof fn lemma_tab_square(m: int, i: int)
    requires table_facts(), pow2(m), m <= 512, 0 <= i < m
    ensures cong(tab(m + i) * tab(m + i), root(m, i)), 0 <= tab(m + i) < 12289
{
    if m == 1 {
        assert(tab(2 * 0int + 1) == tab(1));
        assert(cong(tab(1) * tab(1), -tab(0)));
        lemma_cong_trans(tab(1) * tab(1), -1, 12288);
    } else {
        let k = m / 2 + i / 2;
        if i % 2 == 0 {
            assert(m + i == 2 * k);
        } else {
            assert(m + i == 2 * k + 1);
            lemma_cong_neg_modq(tab(k));
            lemma_cong_trans(tab(2 * k + 1) * tab(2 * k + 1), -tab(k), modq(-tab(k)));
        }
    }
}

/// the roots used by the transform are roots of X^n + 1
proof fn lemma_root_order(n: int, i: int)
    requires table_facts(), pow2(n), 0 <= i < n
    ensures cong(powi(root(n, i), n as nat), -1)
    decreases n
{
    if n == 1 {
        lemma_powi_step(12288, 0);
        assert(powi(12288, 1) == 12288) by { assert(12288 * 1 == 12288); }
    } else {
        let m = n / 2;
        let i2 = i / 2;
        let s = tab(m + i2);
        lemma_root_order(m, i2);
        lemma_tab_square(m, i2);
        // powi(+-s, 2m) == powi(s*s, m) ~ powi(root(m, i2), m) ~ -1
        lemma_powi_cong(s * s, root(m, i2), m as nat);
        lemma_cong_trans(powi(s * s, m as nat), powi(root(m, i2), m as nat), -1);
        if i % 2 == 0 {
            lemma_powi_sq(s, m as nat);
        } else {
            lemma_cong_neg_modq(s);
            lemma_powi_cong(modq(-s), -s, n as nat);
            lemma_powi_sq(-s, m as nat);
            assert((-s) * (-s) == s * s) by (nonlinear_arith);
            lemma_cong_trans(powi(modq(-s), n as nat), powi(-s, n as nat), -1);
        }
    }
}

// ---- evaluation: steps, congruence, linearity ----
proof fn lemma_eval_step(a: Seq<int>, r: int, m: nat)
    ensures eval_upto(a, r, m + 1) == eval_upto(a, r, m) + a[m as int] * powi(r, m), eval_upto(a, r, 0) == 0
{
    reveal_with_fuel(eval_upto, 2);
}
proof fn lemma_eval_cong(u: Seq<int>, v: Seq<int>, r: int, m: nat)
    requires m <= u.len(), m <= v.len(), forall|k: int| 0 <= k < m ==> cong(#[trigger] u[k], v[k])
    ensures cong(eval_upto(u, r, m), eval_upto(v, r, m))
    decreases m
{
    if m == 0 { lemma_eval_step(u, r, 0); lemma_eval_step(v, r, 0); } else {
        lemma_eval_cong(u, v, r, (m - 1) as nat);
        lemma_eval_step(u, r, (m - 1) as nat);
        lemma_eval_step(v, r, (m - 1) as nat);
        lemma_cong_refl(powi(r, (m - 1) as nat));
        lemma_cong_arith(u[m - 1], v[m - 1], powi(r, (m - 1) as nat), powi(r, (m - 1) as nat));
        lemma_cong_arith(eval_upto(u, r, (m - 1) as nat), eval_upto(v, r, (m - 1) as nat),
                         u[m - 1] * powi(r, (m - 1) as nat), v[m - 1] * powi(r, (m - 1) as nat));
    }
}
/// eval(u + lam * v) == eval(u) + lam * eval(v)   (exact, over Z)
proof fn lemma_eval_linear(u: Seq<int>, v: Seq<int>, w: Seq<int>, lam: int, r: int, m: nat)
    requires m <= u.len(), m <= v.len(), m <= w.len(),
             forall|k: int| 0 <= k < m ==> #[trigger] w[k] == u[k] + lam * v[k]
    ensures eval_upto(w, r, m) == eval_upto(u, r, m) + lam * eval_upto(v, r, m)
    decreases m
{
    if m == 0 { lemma_eval_step(u, r, 0); lemma_eval_step(v, r, 0); lemma_eval_step(w, r, 0); } else {
        lemma_eval_linear(u, v, w, lam, r, (m - 1) as nat);
        lemma_eval_step(u, r, (m - 1) as nat);
        lemma_eval_step(v, r, (m - 1) as nat);
        lemma_eval_step(w, r, (m - 1) as nat);
        let p = powi(r, (m - 1) as nat);
        let eu = eval_upto(u, r, (m - 1) as nat);
        let ev = eval_upto(v, r, (m - 1) as nat);
        assert(w[m - 1] == u[m - 1] + lam * v[m - 1]);
        assert((u[m - 1] + lam * v[m - 1]) * p == u[m - 1] * p + lam * (v[m - 1] * p)) by (nonlinear_arith);
        assert(lam * (ev + v[m - 1] * p) == lam * ev + lam * (v[m - 1] * p)) by (nonlinear_arith);
    }
}

// ---- multiplication by X in Z[X]/(X^n+1) ----
pub open spec fn shiftneg(v: Seq<int>) -> Seq<int> {
    Seq::new(v.len(), |k: int| if k == 0 { -v[v.len() - 1] } else { v[k - 1] })
}
/// b * X^m : coefficient k is bneg(b, k - m)
pub open spec fn shm(b: Seq<int>, m: int) -> Seq<int> { Seq::new(b.len(), |k: int| bneg(b, k - m)) }

proof fn lemma_eval_shift_upto(v: Seq<int>, r: int, k: nat)
    requires 1 <= k <= v.len()
    ensures eval_upto(shiftneg(v), r, k) == -v[v.len() - 1] + r * eval_upto(v, r, (k - 1) as nat)
    decreases k
{
    let sv = shiftneg(v);
    lemma_eval_step(sv, r, (k - 1) as nat);
    lemma_powi_step(r, 0);
    if k == 1 {
        lemma_eval_step(v, r, 0);
        assert(sv[0] == -v[v.len() - 1]);
        assert(r * 0 == 0);
    } else {
        lemma_eval_shift_upto(v, r, (k - 1) as nat);
        lemma_eval_step(v, r, (k - 2) as nat);
        lemma_powi_step(r, (k - 2) as nat);
        let p = powi(r, (k - 2) as nat);
        assert(sv[k - 1] == v[k - 2]);
        let e = eval_upto(v, r, (k - 2) as nat);
        assert(v[k - 2] * (r * p) == r * (v[k - 2] * p)) by (nonlinear_arith);
        assert(r * (e + v[k - 2] * p) == r * e + r * (v[k - 2] * p)) by (nonlinear_arith);
    }
}
proof fn lemma_eval_shift(v: Seq<int>, r: int)
    requires v.len() >= 1, cong(powi(r, v.len()), -1)
    ensures cong(eval(shiftneg(v), r), r * eval(v, r))
{
    let n = v.len();
    lemma_eval_shift_upto(v, r, n);
    lemma_eval_step(v, r, (n - 1) as nat);
    lemma_powi_step(r, (n - 1) as nat);
    let e = eval_upto(v, r, (n - 1) as nat);
    let p = powi(r, (n - 1) as nat);
    let last = v[n - 1];
    // r * eval(v) = r*e + last * r^n  ~  r*e - last
    assert(r * (e + last * p) == r * e + last * (r * p)) by (nonlinear_arith);
    lemma_cong_refl(last);
    lemma_cong_arith(last, last, r * p, -1);
    assert(last * -1 == -last);
    lemma_cong_refl(r * e);
    lemma_cong_arith(r * e, r * e, last * (r * p), -last);
    lemma_cong_trans(r * e + last * (r * p), r * e + -last, r * e + -last);
}
proof fn lemma_shm_step(b: Seq<int>, m: int)
    requires 0 <= m < b.len()
    ensures shm(b, m + 1) =~= shiftneg(shm(b, m)), shm(b, 0) =~= b
{
}
proof fn lemma_eval_shm(b: Seq<int>, r: int, m: nat)
    requires b.len() >= 1, m <= b.len(), cong(powi(r, b.len()), -1)
    ensures cong(eval(shm(b, m as int), r), powi(r, m) * eval(b, r))
    decreases m
{
    lemma_powi_step(r, 0);
    if m == 0 {
        lemma_shm_step(b, 0);
        assert(1 * eval(b, r) == eval(b, r));
        lemma_cong_refl(eval(b, r));
    } else {
        lemma_eval_shm(b, r, (m - 1) as nat);
        lemma_shm_step(b, m - 1);
        lemma_eval_shift(shm(b, m - 1), r);
        lemma_powi_step(r, (m - 1) as nat);
        let pe = powi(r, (m - 1) as nat) * eval(b, r);
        lemma_cong_refl(r);
        lemma_cong_arith(r, r, eval(shm(b, m - 1), r), pe);
        assert(r * (powi(r, (m - 1) as nat) * eval(b, r)) == (r * powi(r, (m - 1) as nat)) * eval(b, r)) by (nonlinear_arith);
        lemma_cong_trans(eval(shm(b, m as int), r), r * eval(shm(b, m - 1), r), r * pe);
    }
}

// ---- the convolution ----
proof fn lemma_conv_step(a: Seq<int>, b: Seq<int>, k: int, m: nat)
    ensures conv_upto(a, b, k, m + 1) == conv_upto(a, b, k, m) + a[m as int] * bneg(b, k - m), conv_upto(a, b, k, 0) == 0
{
    reveal_with_fuel(conv_upto, 2);
}
pub open spec fn conv_vec(a: Seq<int>, b: Seq<int>, m: nat) -> Seq<int> {
    Seq::new(b.len(), |k: int| conv_upto(a, b, k, m))
}
/// eval of the partial convolution with the first m terms of a
proof fn lemma_eval_conv(a: Seq<int>, b: Seq<int>, r: int, m: nat)
    requires a.len() == b.len(), b.len() >= 1, m <= a.len(), cong(powi(r, b.len()), -1)
    ensures cong(eval(conv_vec(a, b, m), r), eval_upto(a, r, m) * eval(b, r))
    decreases m
{
    let n = b.len();
    if m == 0 {
        lemma_eval_step(a, r, 0);
        let z = conv_vec(a, b, 0);
        assert forall|k: int| 0 <= k < n implies #[trigger] z[k] == 0 + 0 * b[k] by { lemma_conv_step(a, b, k, 0); }
        lemma_eval_linear(Seq::new(n, |k: int| 0int), b, z, 0, r, n);
        lemma_eval_zero(n, r, n);
        assert(0 * eval(b, r) == 0);
    } else {
        let mm = (m - 1) as nat;
        lemma_eval_conv(a, b, r, mm);
        let u = conv_vec(a, b, mm);
        let w = conv_vec(a, b, m);
        let v = shm(b, mm as int);
        assert forall|k: int| 0 <= k < n implies #[trigger] w[k] == u[k] + a[mm as int] * v[k] by { lemma_conv_step(a, b, k, mm); }
        lemma_eval_linear(u, v, w, a[mm as int], r, n);
        lemma_eval_shm(b, r, mm);
        lemma_eval_step(a, r, mm);
        let eb = eval(b, r);
        let pm = powi(r, mm);
        // eval(w) = eval(u) + a[mm]*eval(v) ~ eval_upto(a,mm)*eb + a[mm]*(pm*eb) = eval_upto(a,m)*eb
        lemma_cong_refl(a[mm as int]);
        lemma_cong_arith(a[mm as int], a[mm as int], eval(v, r), pm * eb);
        lemma_cong_arith(eval(u, r), eval_upto(a, r, mm) * eb, a[mm as int] * eval(v, r), a[mm as int] * (pm * eb));
        assert(eval_upto(a, r, mm) * eb + a[mm as int] * (pm * eb) == (eval_upto(a, r, mm) + a[mm as int] * pm) * eb) by (nonlinear_arith);
    }
}
proof fn lemma_eval_zero(n: nat, r: int, m: nat)
    requires m <= n
    ensures eval_upto(Seq::new(n, |k: int| 0int), r, m) == 0
    decreases m
{
    let z = Seq::new(n, |k: int| 0int);
    if m == 0 { lemma_eval_step(z, r, 0); } else {
        lemma_eval_zero(n, r, (m - 1) as nat);
        lemma_eval_step(z, r, (m - 1) as nat);
        assert(z[m - 1] == 0);
        assert(0 * powi(r, (m - 1) as nat) == 0);
    }
}

/// evaluation at a root of X^n + 1 is a ring homomorphism on Z[X]/(X^n + 1)
proof fn lemma_eval_hom(c: Seq<int>, a: Seq<int>, b: Seq<int>, r: int)
    requires a.len() == c.len(), b.len() == c.len(), c.len() >= 1, cong(powi(r, c.len()), -1)
    ensures ({ let p = Seq::new(c.len(), |k: int| modq(c[k] - negacyclic(a, b)[k]));
               cong(eval(p, r), eval(c, r) - eval(a, r) * eval(b, r)) })
{
    let n = c.len();
    let p = Seq::new(c.len(), |k: int| modq(c[k] - negacyclic(a, b)[k]));
    let cv = conv_vec(a, b, n);
    let d = Seq::new(n, |k: int| c[k] + (-1) * cv[k]);
    assert forall|k: int| 0 <= k < n implies cong(#[trigger] p[k], d[k]) by {
        lemma_modq_idem(c[k] - negacyclic(a, b)[k]);
        assert(negacyclic(a, b)[k] == cv[k]);
    }
    lemma_eval_cong(p, d, r, n);
    lemma_eval_linear(c, cv, d, -1, r, n);
    lemma_eval_conv(a, b, r, n);
    lemma_cong_refl(eval(c, r));
    lemma_cong_refl(-1);
    lemma_cong_arith(-1, -1, eval(cv, r), eval(a, r) * eval(b, r));
    lemma_cong_arith(eval(c, r), eval(c, r), (-1) * eval(cv, r), (-1) * (eval(a, r) * eval(b, r)));
    lemma_cong_trans(eval(p, r), eval(d, r), eval(c, r) + (-1) * (eval(a, r) * eval(b, r)));
}

/// the convolution respects congruence of its first argument
proof fn lemma_conv_cong_upto(a: Seq<int>, a2: Seq<int>, b: Seq<int>, k: int, m: nat)
    requires a.len() == a2.len(), m <= a.len(), forall|t: int| 0 <= t < a.len() ==> cong(#[trigger] a[t], a2[t]),
    ensures cong(conv_upto(a, b, k, m), conv_upto(a2, b, k, m))
    decreases m
{
    if m == 0 { lemma_conv_step(a, b, k, 0); lemma_conv_step(a2, b, k, 0); } else {
        let mm = (m - 1) as nat;
        lemma_conv_cong_upto(a, a2, b, k, mm);
        lemma_conv_step(a, b, k, mm);
        lemma_conv_step(a2, b, k, mm);
        lemma_cong_refl(bneg(b, k - mm));
        lemma_cong_arith(a[mm as int], a2[mm as int], bneg(b, k - mm), bneg(b, k - mm));
        lemma_cong_arith(conv_upto(a, b, k, mm), conv_upto(a2, b, k, mm), a[mm as int] * bneg(b, k - mm), a2[mm as int] * bneg(b, k - mm));
    }
}
proof fn lemma_conv_cong(a: Seq<int>, a2: Seq<int>, b: Seq<int>, k: int)
    requires a.len() == a2.len(), b.len() == a.len(), 0 <= k < a.len(),
             forall|t: int| 0 <= t < a.len() ==> cong(#[trigger] a[t], a2[t]),
    ensures cong(negacyclic(a, b)[k], negacyclic(a2, b)[k])
{
    lemma_conv_cong_upto(a, a2, b, k, a.len());
}
