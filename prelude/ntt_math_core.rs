// PENDING PROOFS (assumed for now; each is a standard fact to be discharged in U-NTT):
/// the roots used by the transform are roots of X^n + 1
#[verifier::external_body]
proof fn lemma_root_order(n: int, i: int)
    requires pow2(n), 0 <= i < n
    ensures cong(powi(root(n, i), n as nat), -1)
{ }
/// evaluation at a root of X^n + 1 is a ring homomorphism on Z[X]/(X^n + 1)
#[verifier::external_body]
proof fn lemma_eval_hom(c: Seq<int>, a: Seq<int>, b: Seq<int>, r: int)
    requires a.len() == c.len(), b.len() == c.len(), cong(powi(r, c.len()), -1)
    ensures ({ let p = Seq::new(c.len(), |k: int| modq(c[k] - negacyclic(a, b)[k]));
               cong(eval(p, r), eval(c, r) - eval(a, r) * eval(b, r)) })
{ }
/// the convolution respects congruence of its first argument
#[verifier::external_body]
proof fn lemma_conv_cong(a: Seq<int>, a2: Seq<int>, b: Seq<int>, k: int)
    requires a.len() == a2.len(), b.len() == a.len(), 0 <= k < a.len(),
             forall|t: int| 0 <= t < a.len() ==> cong(#[trigger] a[t], a2[t]),
    ensures cong(negacyclic(a, b)[k], negacyclic(a2, b)[k])
{ }
