// Algorithm 18 (Decompress) as a recursive specification; shared by U-CODEC and U-VERIFY.
// ------------------------------------------------------------------------------------------
// bit-level vocabulary (MSB-first bit order inside each byte, as in the specification)

pub open spec fn bit(x: Seq<u8>, p: int) -> bool {
    (x[p / 8] >> ((7 - p % 8) as u8)) & 1u8 == 1u8
}
pub open spec fn bi(x: Seq<u8>, p: int) -> int { if bit(x, p) { 1 } else { 0 } }
pub open spec fn nbits(x: Seq<u8>) -> int { 8 * (x.len() as int) }

/// the 7 "low" bits of a coefficient, most significant first, starting at bit p
pub open spec fn low7(x: Seq<u8>, p: int) -> int {
    64 * bi(x, p) + 32 * bi(x, p + 1) + 16 * bi(x, p + 2) + 8 * bi(x, p + 3) + 4 * bi(x, p + 4)
        + 2 * bi(x, p + 5) + bi(x, p + 6)
}
/// number of consecutive zero bits starting at p (stops at the first one or at the buffer end)
#[verifier::opaque]
pub open spec fn run_len(x: Seq<u8>, p: int) -> int
    decreases nbits(x) - p
{
    if p < 0 || p >= nbits(x) || bit(x, p) { 0 } else { 1 + run_len(x, p + 1) }
}
pub open spec fn all_zero_from(x: Seq<u8>, p: int) -> bool {
    forall|i: int| p <= i < nbits(x) ==> !bit(x, i)
}

/// Algorithm 18, one coefficient at bit position p: Some((value, next position)) or reject.
/// Rejections: fewer than 9 bits left; unary run not terminated inside the buffer; run >= 95
/// (|value| >= 12160, outside the property's domain); negative zero.
pub open spec fn dec1(x: Seq<u8>, p: int) -> Option<(int, int)> {
    if p < 0 || p + 9 > nbits(x) {
        None
    } else {
        let k = run_len(x, p + 8);
        if p + 8 + k >= nbits(x) {
            None
        } else if k >= 95 {
            None
        } else {
            let mag = 128 * k + low7(x, p + 1);
            if bit(x, p) && mag == 0 {
                None
            } else {
                Some((if bit(x, p) { -mag } else { mag }, p + 9 + k))
            }
        }
    }
}
/// Algorithm 18: n coefficients starting at bit p, then only zero padding.
#[verifier::opaque]
pub open spec fn dec(x: Seq<u8>, p: int, n: nat) -> Option<Seq<int>>
    decreases n
{
    if n == 0 {
        if all_zero_from(x, p) { Some(Seq::<int>::empty()) } else { None }
    } else {
        match dec1(x, p) {
            None => None,
            Some(vq) => match dec(x, vq.1, (n - 1) as nat) {
                None => None,
                Some(t) => Some(seq![vq.0] + t),
            },
        }
    }
}
pub open spec fn spec_decompress(x: Seq<u8>, n: nat) -> Option<Seq<int>> {
    if n == 0 { None } else { dec(x, 0, n) }
}
pub open spec fn ints(v: Seq<i16>) -> Seq<int> { v.map(|i: int, e: i16| e as int) }
pub open spec fn bounded(v: Seq<i16>) -> bool {
    forall|j: int| 0 <= j < v.len() ==> -12160 < #[trigger] v[j] < 12160
}
pub open spec fn zeros(x: Seq<u8>, a: int, b: int) -> bool {
    forall|p: int| a <= p < b ==> !bit(x, p)
}
