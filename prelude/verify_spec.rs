// Algorithm 16 (Verify) as a specification function.  The two bounds floor(beta^2) are typed from
// the statement of property C02 / the Falcon parameter table, not taken from the code.
pub open spec fn beta2(n: int) -> int { if n == 512 { 34034726 } else { 70265242 } }
pub open spec fn spec_s1(c: Seq<int>, s2: Seq<int>, h: Seq<int>) -> Seq<int> {
    Seq::new(c.len(), |k: int| centre(modq(c[k] - negacyclic(s2, h)[k])))
}
pub open spec fn spec_verify(m: Seq<u8>, salt: Seq<u8>, s: Seq<u8>, h: Seq<int>, n: int) -> bool {
    match spec_decompress(s, n as nat) {
        None => false,
        Some(s2) => {
            let c = spec_h2p(salt + m, n as nat);
            sq_norm(spec_s1(c, s2, h)) + sq_norm(s2) <= beta2(n)
        },
    }
}
